"""E2 - explicit-state breadth-first search over live implementation objects.

A state is identified with the shortest operation history reaching it; live
objects are rebuilt by replaying that history on fresh objects (never deep
copied).  ``canon`` serialises the *complete* ``vars()`` of everything in the
harness so that equal keys imply equal futures for deterministic code.
"""
import collections
import types
from collections import deque


def canon(x, _depth=0, _seen=None):
    """Canonical, hashable form of an arbitrary object graph (complete, not a
    hand-picked field list)."""
    if _depth > 12:
        return ('<deep>', type(x).__name__)
    if x is None or isinstance(x, (bool, int, str, bytes)):
        return (type(x).__name__, x)
    if isinstance(x, float):
        return ('float', repr(x))
    if isinstance(x, complex):
        return ('complex', repr(x))
    if isinstance(x, bytearray):
        return ('bytearray', bytes(x))
    if _seen is None:
        _seen = {}
    if id(x) in _seen:
        return ('<ref>', _seen[id(x)])
    if isinstance(x, (list, tuple, deque)):
        _seen[id(x)] = len(_seen)
        return (type(x).__name__,
                tuple(canon(v, _depth + 1, _seen) for v in x))
    if isinstance(x, (set, frozenset)):
        _seen[id(x)] = len(_seen)
        return (type(x).__name__,
                tuple(sorted((canon(v, _depth + 1, _seen) for v in x),
                             key=repr)))
    if isinstance(x, dict):
        _seen[id(x)] = len(_seen)
        if all(type(k) is str for k in x):
            # common case (vars()): order by the attribute name itself
            return ('dict', tuple(
                (k, canon(x[k], _depth + 1, _seen)) for k in sorted(x)))
        return ('dict', tuple(sorted(
            ((canon(k, _depth + 1, _seen), canon(v, _depth + 1, _seen))
             for k, v in x.items()), key=repr)))
    if isinstance(x, types.GeneratorType):
        fr = x.gi_frame
        if fr is None:
            return ('generator', x.__qualname__, 'finished')
        _seen[id(x)] = len(_seen)
        loc = {k: v for k, v in fr.f_locals.items()}
        return ('generator', x.__qualname__, fr.f_lasti,
                canon(loc, _depth + 1, _seen))
    if isinstance(x, (types.FunctionType, types.BuiltinFunctionType,
                      types.MethodType, type, types.ModuleType)):
        return ('callable', getattr(x, '__qualname__', repr(type(x))))
    if isinstance(x, float):
        return ('float', repr(x))
    ck = getattr(x, '_canon_key', None)
    if ck is not None and callable(ck):
        # harness-owned objects state which of their fields can influence
        # future behaviour (logs and counters of past events cannot)
        return ('harness', type(x).__name__, canon(ck(), _depth + 1, _seen))
    tn = type(x).__name__
    if tn in ('lock', 'RLock') and type(x).__module__ == '_thread':
        # an idle lock carries no state; a held one is recorded as such
        st = 'held' if ('locked' in repr(x).split(' object')[0]
                        and 'unlocked' not in repr(x)) else 'free'
        return ('lock', tn, st)
    if tn in ('Queue', 'LifoQueue', 'PriorityQueue', 'SimpleQueue') and \
            type(x).__module__ in ('queue', '_queue'):
        items = list(getattr(x, 'queue', ()))
        return ('Queue', tn, getattr(x, 'maxsize', 0),
                tuple(canon(v, _depth + 1, _seen) for v in items))
    d = getattr(x, '__dict__', None)
    if d is not None:
        _seen[id(x)] = len(_seen)
        return ('obj', type(x).__name__, canon(dict(d), _depth + 1, _seen))
    slots = getattr(type(x), '__slots__', None)
    if slots:
        _seen[id(x)] = len(_seen)
        return ('obj', type(x).__name__, tuple(
            (s, canon(getattr(x, s, None), _depth + 1, _seen))
            for s in slots))
    return ('opaque', type(x).__name__, repr(x))


import hashlib
import multiprocessing as mp

_CUR = None


def digest_of(key):
    return hashlib.blake2b(repr(key).encode(), digest_size=16).digest()


def _expand_chunk(hists):
    S = _CUR
    out = []
    viols = []
    ntrans = 0
    local = {}
    samples = []
    def crashed(stage, hist, op, e):
        # the code under test raised where the harness does not expect it:
        # a finding about this history, not a reason to lose the whole run
        if len(viols) < 200:
            viols.append((f'step-raised/{stage}/{type(e).__name__}',
                          f'{stage} raised {e!r} after history '
                          f'{list(hist) + ([op] if op is not None else [])}',
                          {'kind': 'history',
                           'ops': [list(o) for o in hist] + (
                               [list(op)] if op is not None else [])}))

    for hist in hists:
        try:
            base = S.build(hist)
            oplist = list(S.ops(base, hist))
        except Exception as e:
            crashed('build', hist, None, e)
            continue
        for op in oplist:
            try:
                sysm = (S.clone(base) if S.clone is not None
                        else S.build(hist))
                obs = S.apply(sysm, op)
            except Exception as e:
                ntrans += 1
                crashed('apply', hist, op, e)
                continue
            ntrans += 1
            try:
                S.check(sysm, hist, op, obs,
                        lambda key, what, case=None: viols.append(
                            (key, what, case)) if len(viols) < 200 else None)
                if len(samples) < 2 and len(hist) >= 2 and ntrans % 101 == 1:
                    samples.append(list(hist) + [op])
                d = digest_of(S.key(sysm))
                ok = S.expand is None or bool(S.expand(sysm, hist, op))
            except Exception as e:
                crashed('check', hist, op, e)
                continue
            prev = local.get(d)
            if prev is not None and (prev or not ok):
                continue        # already reported (as expandable if it is)
            local[d] = ok
            out.append((hist + (op,), d, ok))
    return out, viols, ntrans, samples


def _expand_guarded(hists):
    from .engine_enum import guarded
    r = guarded(_expand_chunk, hists)
    if r[0] == 'hang':
        return ('hang', r[1], r[2], [list(h) for h in hists[:3]])
    return r[1]


class Search:
    """Generic BFS over the implementation, level by level; the expansion of
    a level is distributed over a fork pool.

    build(hist)            -> fresh system with hist replayed
    ops(system, hist)      -> iterable of operations enabled in that state
    apply(system, op)      -> observation (the system is mutated)
    check(system, hist, op, obs, violation) -> None
    key(system)            -> hashable canonical state
    expand(system, hist, op) -> bool: may the successor be expanded further
                              (successors that may not are still checked)
    """

    def __init__(self, build, ops, apply, check, key, max_depth=None,
                 max_states=None, expand=None, clone=None):
        self.build = build
        self.ops = ops
        self.apply = apply
        self.check = check
        self.key = key
        self.max_depth = max_depth
        self.max_states = max_states
        self.expand = expand
        self.clone = clone
        self.states = 0
        self.transitions = 0
        self.max_depth_seen = 0
        self.capped = False
        self.frontier_states = 0     # distinct states checked, not expanded
        self.samples = []
        self.levels = []

    def run(self, violation, roots=((),), procs=1):
        global _CUR
        _CUR = self
        seen = set()
        leaf = set()
        frontier = []
        for root in roots:
            root = tuple(root)
            d = digest_of(self.key(self.build(root)))
            if d not in seen:
                seen.add(d)
                frontier.append(root)
        pool = None
        if procs > 1:
            pool = mp.get_context('fork').Pool(procs)
        try:
            depth = 0
            while frontier:
                self.levels.append(len(frontier))
                if pool is not None:
                    n = max(1, len(frontier) // (procs * 4))
                    chunks = [frontier[i:i + n]
                              for i in range(0, len(frontier), n)]
                    results = pool.map(_expand_guarded, chunks)
                else:
                    results = [_expand_chunk(frontier)]
                nxt = []
                hung = [r for r in results if r and r[0] == 'hang']
                for _, tb, in_impl, hs in hung:
                    self.transitions += 1      # the call that never returned
                    where = [ln.strip() for ln in tb.splitlines()
                             if ln.strip().startswith('File ')
                             and 'in on_alarm' not in ln][-3:]
                    if in_impl:
                        violation('call-never-returned',
                                  f'expanding the histories starting at {hs}: '
                                  f'a call into the implementation did not '
                                  f'return; innermost frames: {where}',
                                  {'kind': 'hang', 'histories': hs})
                    else:
                        print(f'HARNESS-ERROR: BFS expansion exceeded its '
                              f'time limit inside the harness: {where}',
                              flush=True)
                        self.capped = True
                results = [r for r in results if not (r and r[0] == 'hang')]
                if hung:
                    frontier = []
                for out, viols, ntrans, samples in results:
                    self.transitions += ntrans
                    for key, what, case in viols:
                        violation(key, what, case)
                    for smp in samples:
                        if len(self.samples) < 8:
                            self.samples.append(smp)
                    for nh, d, ok in out:
                        if d in seen:
                            continue
                        if not ok:
                            leaf.add(d)
                            continue
                        if (self.max_depth is not None
                                and len(nh) > self.max_depth):
                            self.capped = True
                            leaf.add(d)
                            continue
                        if (self.max_states is not None
                                and len(seen) >= self.max_states):
                            self.capped = True
                            leaf.add(d)
                            continue
                        seen.add(d)
                        nxt.append(nh)
                frontier = nxt
                depth += 1
                if frontier:
                    self.max_depth_seen = depth
        finally:
            if pool is not None:
                pool.close()
                pool.join()
            _CUR = None
        self.states = len(seen)
        self.frontier_states = len(leaf - seen)
        return self

    def fill(self, report):
        report.add('states', self.states)
        report.add('transitions', self.transitions)
        report.add('traces_validated_against_impl', self.transitions)
        report.add('states_checked_not_expanded', self.frontier_states)
        report.coverage['bfs_levels'] = (
            report.coverage.get('bfs_levels', []) + [self.levels])
        report.coverage['bfs_capped'] = bool(
            report.coverage.get('bfs_capped', False) or self.capped)
        for smp in self.samples:
            report.sample(smp)
