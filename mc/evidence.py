"""Evidence writer and the VIOLATION / KNOWN-FINDING protocol."""
import json
import os
import subprocess
import time

from . import common

EVIDENCE_DIR = os.path.join(common.VERIF, 'evidence')
REPLAY_DIR = os.path.join(common.VERIF, 'replays')
KNOWN_FILE = os.path.join(common.VERIF, 'known_findings.json')
SCHEMA = '/root/.vp/EVIDENCE.schema.json'

MAX_SAMPLES = 12
MAX_PER_KEY = 3


def jsonable(x, depth=0):
    """Best-effort conversion of a case description to JSON."""
    if depth > 8:
        return repr(x)
    if x is None or isinstance(x, (bool, int, str)):
        if isinstance(x, int) and not isinstance(x, bool) and abs(x) > 2**53:
            return repr(x)
        return x
    if isinstance(x, float):
        if x != x or x in (float('inf'), float('-inf')):
            return repr(x)
        return x
    if isinstance(x, (bytes, bytearray)):
        return 'hex:' + bytes(x).hex()
    if isinstance(x, dict):
        return {str(k): jsonable(v, depth + 1) for k, v in x.items()}
    if isinstance(x, (list, tuple, set, frozenset)):
        return [jsonable(v, depth + 1) for v in x]
    return repr(x)


class Violation:
    __slots__ = ('key', 'what', 'case')

    def __init__(self, key, what, case=None):
        self.key = key
        self.what = what
        self.case = case

    def as_tuple(self):
        return (self.key, self.what, self.case)


class Report:
    """Collects coverage and violations for one run of one check."""

    def __init__(self, prop, level, technique=''):
        self.prop = prop
        self.level = level
        self.technique = technique
        self.tier = common.tier()
        self.seed = common.seed()
        self.coverage = {}
        self.assumptions = []
        self.violations = {}      # key -> [Violation]
        self.viol_count = 0
        self.samples = []
        self.t0 = time.time()
        self.notes = []

    # -- collecting -------------------------------------------------------
    def violation(self, key, what, case=None):
        self.viol_count += 1
        lst = self.violations.setdefault(key, [])
        if len(lst) < MAX_PER_KEY:
            lst.append(Violation(key, what, case))

    def add_violations(self, tuples):
        for key, what, case in tuples:
            self.violation(key, what, case)

    def sample(self, case):
        if len(self.samples) < MAX_SAMPLES:
            self.samples.append(jsonable(case))

    def add(self, name, n=1):
        self.coverage[name] = self.coverage.get(name, 0) + n

    def merge_counts(self, counts):
        for k, v in counts.items():
            if isinstance(v, (int, float)) and not isinstance(v, bool):
                self.coverage[k] = self.coverage.get(k, 0) + v
            elif isinstance(v, (set, frozenset)):
                cur = self.coverage.setdefault(k, set())
                cur |= v
            else:
                self.coverage[k] = v

    def note(self, text):
        self.notes.append(text)
        print(f'[{self.prop}] {text}', flush=True)

    def require(self, cond, text):
        """Vacuity guard: a failed guard means the *check* is broken (exit 2),
        never a property violation."""
        if not cond:
            print(f'HARNESS-ERROR: property={self.prop} vacuity guard failed: '
                  f'{text}', flush=True)
            self._vacuous = True

    # -- finishing --------------------------------------------------------
    def _load_known(self):
        try:
            with open(KNOWN_FILE) as f:
                entries = json.load(f)['findings']
        except FileNotFoundError:
            return {}
        return {(e['property'], e['key']): e for e in entries
                if e.get('status') == 'known'}

    def finish(self):
        known = self._load_known()
        wall = time.time() - self.t0
        new = []
        known_hits = []
        for key, lst in sorted(self.violations.items()):
            e = known.get((self.prop, key))
            if e is not None:
                known_hits.append((key, e, lst))
            else:
                new.append((key, lst))

        cov = {}
        for k, v in self.coverage.items():
            if isinstance(v, (set, frozenset)):
                cov[k] = len(v)
            else:
                cov[k] = jsonable(v)
        cov.setdefault('samples', self.samples or ['<none recorded>'])
        if self.notes:
            cov['notes'] = self.notes
        cov['known_findings_hit'] = [k for k, _, _ in known_hits]
        cov['technique'] = self.technique
        ev = {
            'property_id': self.prop,
            'tier': self.tier if self.tier in ('quick', 'thorough') else 'quick',
            'seed': self.seed,
            'level': self.level,
            'coverage': cov,
            'assumptions': self.assumptions,
            'wall_s': round(wall, 3),
            'violations': len(new),
        }
        evdir = EVIDENCE_DIR
        if os.environ.get('VERIF_NOEVIDENCE') == '1':
            # seeded-change runs against a scratch repo must not overwrite
            # the evidence of the real tree
            evdir = os.path.join(common.scratch_root(), 'evidence')
        os.makedirs(evdir, exist_ok=True)
        path = os.path.join(evdir, f'{self.prop}.json')
        tmp = path + '.tmp'
        with open(tmp, 'w') as f:
            json.dump(ev, f, indent=1, sort_keys=True)
            f.write('\n')
        os.replace(tmp, path)
        self._validate(path)

        for key, e, lst in known_hits:
            print(f'KNOWN-FINDING: property={self.prop} {e["what"]} '
                  f'[key={key}; e.g. {lst[0].what}]', flush=True)

        summary = ', '.join(
            f'{k}={cov[k]}' for k in
            ('evaluations', 'distinct_nontrivial', 'states', 'transitions',
             'traces_validated_against_impl', 'schedules', 'exhaustive')
            if k in cov)
        print(f'[{self.prop}] tier={self.tier} seed={self.seed} {summary} '
              f'wall={wall:.1f}s violations={len(new)} '
              f'known={len(known_hits)}', flush=True)

        if not new:
            # a failed vacuity guard or crashed worker means the check itself
            # is broken: exit 2, never a verdict
            return 2 if getattr(self, '_vacuous', False) else 0
        rdir = REPLAY_DIR
        if os.environ.get('VERIF_NOEVIDENCE') == '1':
            rdir = os.path.join(common.scratch_root(), 'replays')
        os.makedirs(os.path.join(rdir, self.prop), exist_ok=True)
        for key, lst in new:
            safe = ''.join(c if c.isalnum() or c in '-_.' else '_'
                           for c in key)[:120]
            rpath = os.path.join(rdir, self.prop, safe + '.json')
            with open(rpath, 'w') as f:
                json.dump({
                    'property': self.prop,
                    'key': key,
                    'count_this_key_capped': len(lst),
                    'cases': [{'what': v.what, 'case': jsonable(v.case)}
                              for v in lst],
                    'replay': f'/venv/bin/python -m mc {self.prop} '
                              f'--replay {rpath}',
                }, f, indent=1)
                f.write('\n')
            print(f'VIOLATION property={self.prop} replay={rpath}', flush=True)
            print(f'  key={key}: {lst[0].what}', flush=True)
        return 1

    def _validate(self, path):
        """Validate against the evidence schema when jsonschema is at hand
        (tooling venv); silent otherwise."""
        if not os.path.exists(SCHEMA):
            return
        code = ('import json,sys,jsonschema;'
                'jsonschema.validate(json.load(open(sys.argv[1])),'
                'json.load(open(sys.argv[2])))')
        try:
            r = subprocess.run(['python3-vt', '-c', code, path, SCHEMA],
                               capture_output=True, text=True, timeout=60)
        except (OSError, subprocess.TimeoutExpired):
            return
        if r.returncode != 0:
            print(f'HARNESS-ERROR: evidence {path} does not validate:\n'
                  f'{r.stderr[-2000:]}', flush=True)
            self._vacuous = True
