"""C03 - no invalid message state is reachable through the checked API.

E2 closure: for each of the 18 types a live Message is explored to a fixed
point under setattr / delattr / data += / copy(**overrides); at every reached
state the constructor, from_dict and from_str entry points are exercised with
every (name, value) of the alphabets.  Reference: docs/message_types.rst.
"""
import itertools
from decimal import Decimal
from fractions import Fraction
from numbers import Integral, Real

from .. import common
from ..engine_bfs import Search, canon
from ..engine_enum import Acc, run_shards
from ..evidence import Report
from ..ref import midi as ref

PROP = 'C03'
ALLOWED_EXC = (ValueError, TypeError, AttributeError)

TIME_VALUES = (0, -1.5, 2 ** 70, float('inf'), 'x', None, 1j, [0], '1',
               0j, Decimal(0))


def int_values(lo, hi):
    mid = (lo + hi) // 2
    base = (lo - 1, lo, mid, hi, hi + 1, True, 2 ** 64, -2 ** 64, 1.0, '1',
            None, [1], 1 + 0j, float('nan'))
    # equal to a valid value (the defaults are 0 and 64) but not an integer
    equal = (float(lo), float(mid), float(hi), 64.0, 0.0, Fraction(mid),
             Fraction(0), Fraction(64), Decimal(lo), 0j)
    out = list(base)
    for v in equal:
        if not any(type(v) is type(o) and v == o for o in out):
            out.append(v)
    return tuple(out)


class Gen:
    """A re-creatable generator value (generators are single-use)."""

    def __init__(self, items):
        self.items = tuple(items)

    def make(self):
        return (x for x in self.items)

    def __repr__(self):
        return f'Gen{self.items}'


class Sx:
    """A value of the library's own sysex-data tuple subclass (reachable as
    type(msg.data)): being of that type is no proof of valid contents."""

    def __init__(self, items):
        self.items = tuple(items)

    def __repr__(self):
        return f'Sx{self.items}'


SX_CLASS = []


DATA_VALUES = (Sx((1, 2)), Sx((1, 300)), Sx((1.5,)), Sx(('a',)), Sx((None,)),
               Sx((-1,)),(), (0,), (127,), (128,), (-1,), [1, 2], b'\x01',
               bytearray(b'\x7f'), range(3), Gen((5, 6)), Gen((5, 200)), 'ab',
               5, None, (1.0,), ('1',), [None], 3, 0, True, [[1]], b'\x80',
               (2 ** 64,), (0, 1, 2, 3, 4, 5, 6, 7, 127),
)
# sizes where bulk validators switch in (tried from the initial state only)
DATA_VALUES_BIG = (tuple([5] * 255), tuple([5] * 256), tuple([5] * 300),
                   tuple([5] * 255 + [200]), tuple([5] * 299 + [128]),
                   tuple([127] * 5000), tuple([1] * 4999 + [255]),
                   bytes([5] * 1000 + [0x80]), [5] * 4096 + [-1],
                   tuple([3] * 8 + [0x80] * 0), tuple([3] * 15 + [0x80]),
                   tuple([3] * 23 + [200]), tuple([3] * 7 + [128]),
                   tuple([3] * 31 + [255]), tuple([3] * 63 + [128]),
                   tuple([3] * 64), tuple([3] * 127 + [128]))


BIG_OK = [False]


def values_for(name):
    if name == 'data' and BIG_OK[0]:
        return DATA_VALUES + DATA_VALUES_BIG
    if name == 'time':
        return TIME_VALUES
    if name == 'data':
        return DATA_VALUES
    lo, hi = ref.RANGES[name]
    return int_values(lo, hi)


def realise(v):
    if isinstance(v, Gen):
        return v.make()
    if isinstance(v, Sx):
        return SX_CLASS[0](v.items)
    return v


def normalise(name, v):
    """Reference: (accepted, stored_value) for assigning name=v."""
    if name == 'time':
        return (isinstance(v, Real), v)
    if name == 'data':
        if isinstance(v, (Gen, Sx)):
            v = v.items
        if isinstance(v, (str, bytes, bytearray)) and isinstance(v, str):
            return (False, None)
        try:
            t = tuple(v)
        except TypeError:
            return (False, None)
        ok = all(isinstance(b, Integral) and 0 <= b <= 127 for b in t)
        return (ok, t)
    lo, hi = ref.RANGES[name]
    ok = isinstance(v, Integral) and lo <= v <= hi
    return (ok, v)


def names_for(type_):
    own = list(ref.attr_names(type_)) + ['time']
    foreign = 'note' if 'note' not in own else 'pos'
    return own, foreign


def _norm(v):
    if isinstance(v, tuple):            # SysexData is a tuple subclass
        return ('tuple', tuple(_norm(x) for x in v))
    if isinstance(v, dict):
        return ('dict', tuple(sorted((k, _norm(x)) for k, x in v.items())))
    if isinstance(v, float):
        return ('float', repr(v))
    return (type(v).__name__, v)


def same(a, b):
    """vars equality that is exact about value types (1 vs True vs 1.0) but
    treats tuple subclasses as tuples."""
    return _norm(a) == _norm(b)


def vkey(v):
    if isinstance(v, Sx):
        return 'SysexData'
    return type(v).__name__ if not isinstance(v, Gen) else 'generator'


def make_search(mido, type_, acc):
    Message = mido.Message
    if not SX_CLASS:
        SX_CLASS.append(type(Message('sysex').data))
    own, foreign = names_for(type_)
    set_names = own + ['type', foreign, 'nosuch', 'is_meta', '_foo', '__foo',
                       '_lock', 'Note', 'skip_checks']

    def build(hist):
        m = Message(type_)
        for op in hist:
            m = step(m, op)[0]
        return {'m': m}

    def step(m, op):
        """Apply op; return (current message, observation)."""
        kind = op[0]
        before = dict(vars(m))
        try:
            if kind == 'set':
                setattr(m, op[1], realise(op[2]))
                return m, ('ok', None, before)
            if kind == 'del':
                delattr(m, op[1])
                return m, ('ok', None, before)
            if kind == 'iadd':
                m.data += realise(op[1])
                return m, ('ok', None, before)
            if kind == 'copy':
                ov = {k: realise(v) for k, v in op[1]}
                c = m.copy(**ov)
                return c, ('ok', m, before)
            if kind == 'ctor':
                ov = dict(before)
                ov.pop('type')
                ov.update({k: realise(v) for k, v in op[1]})
                c = Message(type_, **ov)
                return m, ('new', c, before)
            if kind == 'from_dict':
                ov = dict(before)
                ov.update({k: realise(v) for k, v in op[1]})
                c = Message.from_dict(ov)
                return m, ('new', c, before)
            if kind == 'from_str':
                c = Message.from_str(op[1])
                return m, ('new', c, before)
        except Exception as e:
            return m, ('raised', e, before)
        raise AssertionError(op)

    def ops(s, hist):
        BIG_OK[0] = (len(hist) == 0)
        try:
            return _ops(s, hist)
        finally:
            BIG_OK[0] = False

    def _ops(s, hist):
        out = []
        for name in set_names:
            vals = values_for(name) if name in own else (0, 1)
            for v in vals:
                out.append(('set', name, v))
            out.append(('del', name))
        if type_ == 'sysex':
            for v in values_for('data'):
                out.append(('iadd', v))
        for name in own + [foreign, 'nosuch', '_foo', 'skip_checks']:
            vals = values_for(name) if name in own else (0,)
            if name == 'skip_checks':
                continue        # a keyword of the constructor, not an attribute
            for v in vals:
                out.append(('copy', ((name, v),)))
                out.append(('ctor', ((name, v),)))
                out.append(('from_dict', ((name, v),)))
        out.append(('copy', (('type', type_),)))
        out.append(('copy', (('type', 'clock' if type_ != 'clock' else 'stop'),)))
        out.append(('copy', (('type', 'nosuch'),)))
        # pairs of overrides: first own attribute at its limits x time values
        a0 = own[0]
        for v0 in values_for(a0)[:5] if a0 != 'time' else ():
            for t in (0, 1.5, 'x'):
                out.append(('copy', ((a0, v0), ('time', t))))
                out.append(('ctor', ((a0, v0), ('time', t))))
        # text entry point
        for name in own:
            if name in ('time', 'data'):
                continue
            lo, hi = ref.RANGES[name]
            for v in (lo - 1, lo, hi, hi + 1):
                out.append(('from_str', f'{type_} {name}={v}'))
        if type_ == 'sysex':
            for txt in ('data=(1,2)', 'data=(128)', 'data=(-1)', 'data=(0,127)'):
                out.append(('from_str', f'sysex {txt}'))
        # text that tries to switch the checks off
        for name in own:
            if name in ('time', 'data'):
                continue
            lo, hi = ref.RANGES[name]
            out.append(('from_str', f'{type_} {name}={hi + 1} skip_checks=1'))
            out.append(('from_str', f'{type_} skip_checks=1 {name}={lo - 1}'))
        return out

    def apply(s, op):
        m, obs = step(s['m'], op)
        s['m'] = m
        return obs

    def check(s, hist, op, obs, violation):
        status, other, before = obs
        kind = op[0]
        case = {'kind': 'history', 'type': type_,
                'ops': [repr(o) for o in hist + (op,)]}
        m = s['m']

        def bad(key, what):
            violation(f'{type_}/{kind}/{key}', what + f' [history {hist}]',
                      case)

        # (0) whatever happened, the current object and anything returned is
        # a valid message of unchanged type and attribute set
        for obj in ([m] + ([other] if other is not None and
                           status in ('ok', 'new') else [])):
            why = ref.valid_message_vars(vars(obj))
            if why or obj.type != type_:
                bad('invalid-state',
                    f'after {op!r}: {obj!r} is not a valid {type_}: {why}')
                return
            if type(obj) is not Message:
                bad('class-changed', f'after {op!r}: {type(obj)}')
                return
        if status == 'raised' and not isinstance(other, ALLOWED_EXC):
            bad(f'wrong-exception/{type(other).__name__}',
                f'{op!r} raised {other!r}')
            return

        if kind in ('set', 'del', 'iadd'):
            name = op[1] if kind != 'iadd' else 'data'
            if kind == 'del':
                accept, stored = False, None
            elif kind == 'iadd':
                accept, ext = normalise('data', op[1])
                stored = tuple(before['data']) + (ext or ()) if accept else None
            elif name in own:
                accept, stored = normalise(name, op[2])
            else:
                accept, stored = False, None
            if accept:
                if status == 'raised':
                    bad(f'rejected-valid/{name}/{vkey(op[-1])}',
                        f'{op!r} raised {other!r} for a documented value')
                    return
                want = dict(before)
                want[name] = stored
                single_use = isinstance(op[-1], Gen)
                if not same(vars(m), want) and not single_use:
                    bad(f'not-stored/{name}',
                        f'{op!r}: vars {vars(m)} != {want}')
            else:
                if status != 'raised':
                    if kind == 'set' and name == 'type' and same(vars(m), before):
                        pass      # no-op assignment of the same type is harmless
                    else:
                        bad(f'accepted-invalid/{name}/{vkey(op[-1])}',
                            f'{op!r} was accepted; vars now {vars(m)}')
                        return
                if not same(vars(m), before):
                    bad(f'rejected-but-changed/{name}',
                        f'{op!r} raised {other!r} but vars changed from '
                        f'{before} to {vars(m)}')
        elif kind in ('copy', 'ctor', 'from_dict'):
            ov = op[1]
            accept = True
            want = dict(before)
            for name, v in ov:
                if name == 'type':
                    if kind == 'copy':
                        accept = accept and v == type_
                    continue
                if name not in own:
                    accept = False
                    continue
                a, st = normalise(name, v)
                accept = accept and a
                want[name] = st
            vk = '+'.join(f'{n}:{vkey(v)}' for n, v in ov)
            if kind == 'copy' and status != 'raised':
                orig = other
                if not same(vars(orig), before):
                    bad('copy-mutated-original',
                        f'{op!r} changed the original from {before} to '
                        f'{vars(orig)}')
                    return
                if orig is m:
                    bad('copy-returned-self', f'{op!r} returned the original')
                    return
            if accept:
                if status == 'raised':
                    bad(f'rejected-valid/{vk}',
                        f'{op!r} raised {other!r} for documented values')
                    return
                new = m if kind == 'copy' else other
                single_use = any(isinstance(v, Gen) for _, v in ov)
                if not same(vars(new), want) and not single_use:
                    bad(f'wrong-result/{vk}',
                        f'{op!r}: result vars {vars(new)} != {want}')
            else:
                if status != 'raised':
                    new = m if kind == 'copy' else other
                    bad(f'accepted-invalid/{vk}',
                        f'{op!r} was accepted and gave {new!r}')
                    return
                if not same(vars(m), before):
                    bad('rejected-but-changed',
                        f'{op!r} raised but the message changed')
        elif kind == 'from_str':
            text = op[1]
            if 'skip_checks' in text:
                # not a parameter of the text format: must be rejected, and
                # must never switch validation off
                if status != 'raised':
                    bad('accepted-invalid/skip_checks-in-text',
                        f'from_str({text!r}) = {other!r}')
                return
            word = text.split()[1]
            name, _, val = word.partition('=')
            if name == 'data':
                items = [int(x) for x in val.strip('()').split(',') if x]
                accept = all(0 <= b <= 127 for b in items)
                stored = tuple(items)
            else:
                accept, stored = normalise(name, int(val))
            if accept:
                if status == 'raised':
                    bad(f'rejected-valid/{name}', f'from_str({text!r}) raised {other!r}')
                elif getattr(other, name) != stored:
                    bad(f'wrong-result/{name}', f'from_str({text!r}) = {other!r}')
            elif status != 'raised':
                bad(f'accepted-invalid/{name}', f'from_str({text!r}) = {other!r}')

    def key(s):
        return canon(vars(s['m']))

    def expand(s, hist, op):
        # data payloads grow without bound under +=; expand up to length 3
        d = vars(s['m']).get('data')
        try:
            return d is None or len(d) <= 3
        except TypeError:
            return False        # data of an unsized type: reported, not expanded

    # normal size is a few hundred states per type; a cap keeps the run
    # bounded when a defect makes invalid states reachable (they are reported)
    return Search(build, ops, apply, check, key, expand=expand,
                  max_states=6000)


def worker(shard):
    mido = common.import_mido()
    acc = Acc()
    type_ = shard
    srch = make_search(mido, type_, acc)
    srch.run(acc.violation, procs=1)
    acc.evals = srch.transitions
    acc.nontrivial = srch.transitions
    acc.count('states', srch.states)
    acc.count('transitions', srch.transitions)
    acc.count('traces_validated_against_impl', srch.transitions)
    acc.count('states_checked_not_expanded', srch.frontier_states)
    if srch.capped:
        acc.count('capped')
    for smp in srch.samples[:1]:
        acc.sample({'type': type_, 'ops': [repr(o) for o in smp]})
    # unknown message type at construction must raise
    for bad_type in ('nosuch', '', None, 5, 'NOTE_ON'):
        try:
            m = mido.Message(bad_type)
        except Exception:
            pass
        else:
            acc.violation('unknown-type-accepted',
                          f'Message({bad_type!r}) returned {m!r}',
                          {'kind': 'ctor-type', 'type': repr(bad_type)})
    return acc


def run():
    common.import_mido()
    rep = Report(PROP, 'model_checking',
                 'explicit-state closure over live Message objects under '
                 'setattr/delattr/+=/copy, with constructor/from_dict/from_str '
                 'probed at every state, against the documented ranges')
    run_shards(worker, list(ref.TYPES), rep)
    rep.coverage['exhaustive'] = True
    rep.coverage['rule'] = (
        'per message type: BFS to a fixed point from Message(type); ops = '
        'setattr(name, v), delattr(name), data += v, m = m.copy(**{name: v}) '
        '(also type overrides and pairs with time), and at every state '
        'Message(type, **attrs+override), from_dict, from_str; names = own '
        'attributes, time, type, a foreign attribute, an unknown name; values '
        '= {lo-1, lo, mid, hi, hi+1, True, +-2**64, 1.0, "1", None, [1], '
        '1+0j, nan} per integer attribute, 9 time values, '
        '24 data values (tuples, lists, bytes, bytearray, range, generators, '
        'str, ints, None, nested). Every transition is executed on the real '
        'object and judged by the reference ranges; sysex payload growth is '
        'expanded up to length 3')
    rep.assumptions += [
        'values between the limits behave like mid',
        'bool counts as an integer (it is an Integral in Python)',
        'a generator passed as data is judged on validity of the result only '
        '(it is single-use)',
    ]
    rep.require(rep.coverage.get('states', 0) > 500, 'too few states')
    rep.require('capped' not in rep.coverage, 'search capped')
    return rep


def check_case(case):
    mido = common.import_mido()
    out = []
    if case['kind'] != 'history':
        return out
    acc = Acc()
    srch = make_search(mido, case['type'], acc)
    env = {'Gen': Gen, 'Sx': Sx, 'Fraction': Fraction, 'Decimal': Decimal, 'inf': float('inf'), 'nan': float('nan')}
    hist = tuple(eval(o, env) for o in case['ops'])
    s = srch.build(hist[:-1])
    obs = srch.apply(s, hist[-1])
    srch.check(s, hist[:-1], hist[-1], obs,
               lambda k, w, c=None: out.append((k, w)))
    return out


def replay(path):
    from ..replay import generic_replay
    return generic_replay(PROP, path, check_case)
