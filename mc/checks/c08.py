"""C08 - file bytes conform to the Standard MIDI File format in both
directions (E1 + E3 over the legal encoding choices, independent codec)."""
import contextlib
import io
import itertools

from .. import common
from ..engine_enum import Acc, run_shards
from ..evidence import Report
from ..ref import smf
from .c07 import build_file
from .smf_common import (DELTAS, SYMBOLS, load_bytes, make, msg_to_event,
                         msig, normalised_sigs, save_bytes, short,
                         track_events, track_sigs)

PROP = 'C08'


# ------------------------------------------------------------ write direction
def check_write(mido, type_, tpb, specs, acc):
    acc.evals += 1
    acc.nontrivial += 1
    case = {'kind': 'write', 'type': type_, 'tpb': tpb,
            'tracks': [[list(x) for x in sp] for sp in specs]}
    mf = build_file(mido, type_, tpb, specs)
    try:
        data = save_bytes(mf)
    except Exception as e:
        acc.violation(f'write/save-raises/{type(e).__name__}',
                      f'{short(case)}: {e!r}', case)
        return
    try:
        dec = smf.decode_file(data)
    except smf.SMFError as e:
        acc.violation('write/not-conformant/' + str(e).split('(')[0][:50].strip().replace(' ', '-'),
                      f'{short(case)}: saved bytes {data.hex()} rejected by '
                      f'the reference decoder: {e}', case)
        return
    if (dec['format'], dec['ntrks'], dec['division'], dec['header_len']) != (
            type_, len(specs), tpb, 6):
        acc.violation('write/header',
                      f'{short(case)}: header decodes to {dec["format"]}, '
                      f'{dec["ntrks"]}, {dec["division"]}, len '
                      f'{dec["header_len"]}', case)
        return
    for i, (tr, t) in enumerate(zip(dec['tracks'], mf.tracks)):
        want = smf.normalise(track_events(t))
        if tr['events'] != want:
            acc.violation('write/events-differ',
                          f'{short(case)}: track {i} decodes to '
                          f'{short(tr["events"], 300)}, in memory '
                          f'{short(want, 300)}', case)
            return
        for (delta, ev), note in zip(tr['events'], tr['notes']):
            if not note['delta_minimal'] or not note['len_minimal']:
                acc.violation('write/vlq-not-minimal',
                              f'{short(case)}: padded variable-length '
                              f'quantity at {ev}', case)
                return
        if not tr['events'] or tr['events'][-1][1] != smf.EOT:
            acc.violation('write/no-eot', f'{short(case)}', case)
            return
        if any(n['running'] for n in tr['notes']):
            acc.count('writes_using_running_status')


# ------------------------------------------------------------ read direction
def load_sigs(mido, data, **kw):
    f = load_bytes(mido, data, **kw)
    return (f.type, f.ticks_per_beat, [track_sigs(t) for t in f.tracks])


def check_read(mido, type_, tpb, specs, acc, dev_bound):
    """Every legal alternative encoding of the event lists must load to the
    same messages."""
    mf = build_file(mido, type_, tpb, specs)
    tracks_ev = [smf.normalise(track_events(t)) for t in mf.tracks]
    want = (type_, tpb, [normalised_sigs(mido, t) for t in mf.tracks])
    case0 = {'kind': 'read', 'type': type_, 'tpb': tpb,
             'tracks': [[list(x) for x in sp] for sp in specs]}
    # choice points: running status per eligible event, VLQ padding per
    # delta / length, header length
    elig = [smf.running_eligible(ev) for ev in tracks_ev]
    points = [('hdr', h) for h in (7, 8, 12)]
    for ti, ev in enumerate(tracks_ev):
        for i, (delta, e) in enumerate(ev):
            points.append(('dpad', ti, i, 1))
            points.append(('dpad', ti, i, 2))
            if e[0] in ('sysex', 'meta'):
                points.append(('lpad', ti, i, 1))
                points.append(('lpad', ti, i, 2))
    run_subsets = []
    total_elig = sum(len(x) for x in elig)
    flat_elig = [(ti, i) for ti, lst in enumerate(elig) for i in lst]
    if total_elig <= 4:
        for r in range(total_elig + 1):
            run_subsets += list(itertools.combinations(flat_elig, r))
    else:
        for r in range(0, 3):
            run_subsets += list(itertools.combinations(flat_elig, r))
        run_subsets.append(tuple(flat_elig))
    devsets = [()]
    for r in range(1, dev_bound + 1):
        for combo in itertools.combinations(points, r):
            keys = [c[:3] if c[0] != 'hdr' else ('hdr',) for c in combo]
            if len(set(keys)) == len(keys):
                devsets.append(combo)
    for runs in run_subsets:
        for devs in (devsets if len(runs) in (0, total_elig) else devsets[:1]):
            hdr = 6
            enc_tracks = []
            kw = [{'running': set(), 'delta_pad': {}, 'len_pad': {}}
                  for _ in tracks_ev]
            for ti, i in runs:
                kw[ti]['running'].add(i)
            for d in devs:
                if d[0] == 'hdr':
                    hdr = d[1]
                elif d[0] == 'dpad':
                    kw[d[1]]['delta_pad'][d[2]] = d[3]
                else:
                    kw[d[1]]['len_pad'][d[2]] = d[3]
            data = smf.encode_file(type_, tpb,
                                   [(ev, k) for ev, k in zip(tracks_ev, kw)],
                                   header_len=hdr)
            acc.evals += 1
            if runs or devs:
                acc.nontrivial += 1
            if runs:
                acc.count('reads_with_running_status')
            case = dict(case0, running=[list(r) for r in runs],
                        deviations=[list(d) for d in devs], hex=data.hex())
            cls = ('running-status' if runs else '') + (
                '+' + '+'.join(sorted({d[0] for d in devs})) if devs else '')
            for name, kwargs in (('plain', {}), ('clip', {'clip': True}),
                                 ('debug', {'debug': True}),
                                 ('debug+clip', {'debug': True, 'clip': True})):
                try:
                    if name.startswith('debug'):
                        with contextlib.redirect_stdout(io.StringIO()):
                            got = load_sigs(mido, data, **kwargs)
                    else:
                        got = load_sigs(mido, data, **kwargs)
                except Exception as e:
                    acc.violation(f'read/{name}/raises/{type(e).__name__}/{cls}',
                                  f'{short(case0)} encoded as {data.hex()} '
                                  f'({cls or "canonical"}): load raised {e!r}',
                                  case)
                    continue
                if got != want:
                    acc.violation(f'read/{name}/differs/{cls}',
                                  f'{short(case0)} encoded as {data.hex()} '
                                  f'({cls or "canonical"}): loaded '
                                  f'{short(got, 300)}, expected '
                                  f'{short(want, 300)}', case)


def check_clip(mido, specs, acc):
    """Data bytes above 127: clip=False raises, clip=True loads the same
    list with 127 at exactly that position."""
    mf = build_file(mido, 1, 480, specs)
    ev = smf.normalise(track_events(mf.tracks[0]))
    base = smf.encode_file(1, 480, [ev])
    want = normalised_sigs(mido, mf.tracks[0])
    # locate data-byte positions of channel messages in the encoded track
    pos = base.index(b'MTrk') + 8
    positions = []
    for idx, (delta, e) in enumerate(ev):
        pos += len(smf.padded_vlq(delta, 0))
        eb = smf.event_bytes(e)
        if e[0] == 'ch':
            for k in range(1, len(eb)):
                positions.append((pos + k, idx, k - 1))
        pos += len(eb)
    for p, idx, k in positions:
        for bad in (0x80, 0xFF, 0xF7):
            data = base[:p] + bytes([bad]) + base[p + 1:]
            acc.evals += 1
            acc.nontrivial += 1
            case = {'kind': 'clip', 'tracks': [[list(x) for x in specs[0]]],
                    'pos': p, 'bad': bad, 'hex': data.hex()}
            try:
                got = load_sigs(mido, data)
            except Exception:
                pass
            else:
                acc.violation('clip/off-accepted',
                              f'{data.hex()}: data byte {bad:#x} accepted with '
                              f'clip=False: {short(got)}', case)
            try:
                got = load_sigs(mido, data, clip=True)
            except Exception as e:
                acc.violation(f'clip/on-raises/{type(e).__name__}',
                              f'{data.hex()}: clip=True raised {e!r}', case)
                continue
            # expected: same list, that data byte 127
            exp = []
            for j, s in enumerate(want):
                if j != idx:
                    exp.append(s)
                    continue
                m = mf.tracks[0][0].__class__  # noqa (Message)
                orig = [x for x in mf.tracks[0]
                        if x.type != 'end_of_track'][idx] if False else None
                exp.append(None)
            # the same with debug output on
            try:
                with contextlib.redirect_stdout(io.StringIO()):
                    got_dbg = load_sigs(mido, data, clip=True, debug=True)
                if got_dbg != got:
                    acc.violation('clip/debug-differs',
                                  f'{data.hex()}: clip=True, debug=True loaded '
                                  f'{short(got_dbg, 300)}, without debug '
                                  f'{short(got, 300)}', case)
            except Exception as e:
                acc.violation(f'clip/debug-raises/{type(e).__name__}',
                              f'{data.hex()}: clip=True, debug=True raised '
                              f'{e!r}', case)
            try:
                f = load_bytes(mido, data, clip=True)
                msgs = f.tracks[0]
                ok = len(msgs) == len(want)
                if ok:
                    for j, (mm, s) in enumerate(zip(msgs, want)):
                        if j != idx:
                            ok = ok and msig(mm) == s
                        else:
                            e_want = list(ev[idx][1][2])
                            e_want[k] = 127
                            got_ev = msg_to_event(mm)
                            ok = ok and got_ev == ('ch', ev[idx][1][1],
                                                   tuple(e_want)) \
                                and mm.time == ev[idx][0]
                if not ok:
                    acc.violation('clip/on-differs',
                                  f'{data.hex()}: clip=True loaded '
                                  f'{short(track_sigs(msgs), 300)}; expected '
                                  f'the original list with 127 at event {idx} '
                                  f'data byte {k}', case)
            except Exception as e:
                acc.violation(f'clip/on-raises/{type(e).__name__}',
                              f'{data.hex()}: {e!r}', case)


def check_clip_sysex(mido, acc):
    """A sysex payload byte above 127 (0x80, 0xFF; 0xF7 only where it is not
    the terminator): clip=False raises, clip=True loads the payload with 127
    at exactly that position."""
    for payload in ((5,), (1, 2, 3), tuple(range(10))):
        for pos in range(len(payload)):
            for bad in (0x80, 0xFF, 0xF7):
                if bad == 0xF7 and pos == len(payload) - 1:
                    continue
                p = list(payload)
                p[pos] = bad
                ev = [(1, ('ch', 0x90, (60, 64))), (2, ('sysex', tuple(p))),
                      (0, ('ch', 0x80, (60, 0))), (0, smf.EOT)]
                data = smf.encode_file(1, 480, [ev])
                acc.evals += 1
                acc.nontrivial += 1
                case = {'kind': 'clip-sysex', 'payload': p, 'hex': data.hex()}
                try:
                    got = load_sigs(mido, data)
                    acc.violation('clip/sysex/off-accepted',
                                  f'{data.hex()}: sysex payload byte {bad:#x} '
                                  f'accepted with clip=False: {short(got)}',
                                  case)
                except Exception:
                    pass
                want = list(p)
                want[pos] = 127
                for kw in ({'clip': True}, {'clip': True, 'debug': True}):
                    try:
                        with contextlib.redirect_stdout(io.StringIO()):
                            f = load_bytes(mido, data, **kw)
                        sx = [m for m in f.tracks[0] if m.type == 'sysex']
                        if len(f.tracks[0]) != 4 or len(sx) != 1 or \
                                tuple(sx[0].data) != tuple(want) or \
                                sx[0].time != 2:
                            acc.violation('clip/sysex/on-differs',
                                          f'{data.hex()} with {kw}: loaded '
                                          f'{short(track_sigs(f.tracks[0]), 300)}'
                                          f'; expected sysex data {want}', case)
                    except Exception as e:
                        acc.violation(f'clip/sysex/on-raises/{type(e).__name__}',
                                      f'{data.hex()} with {kw}: {e!r}', case)


def worker(shard):
    mido = common.import_mido()
    acc = Acc()
    kind = shard[0]
    if kind == 'clip-sysex':
        check_clip_sysex(mido, acc)
        acc.sample({'clip_sysex_payloads': [1, 3, 10]}, cap=1)
        return acc
    if kind == 'write':
        type_, first, n = shard[1], shard[2], shard[3]
        i = 0
        for k in range(0, n):
            for rest in itertools.product(SYMBOLS, repeat=k):
                syms = (first,) + rest
                i += 1
                check_write(mido, type_, (480, 1, 32767)[i % 3],
                            [[(s, 0) for s in syms]], acc)
                for pos in range(len(syms)):
                    sp = [(s, 0) for s in syms]
                    sp[pos] = (syms[pos], DELTAS[1 + (i + pos) % 8])
                    check_write(mido, type_, 480, [sp], acc)
        for t1 in SYMBOLS:
            check_write(mido, 1, 480, [[(first, 1)], [(t1, 0), (first, 2)]],
                        acc)
        acc.sample({'write': [first] + list(rest)}, cap=1)
    elif kind == 'read':
        type_, first, n, dev = shard[1], shard[2], shard[3], shard[4]
        for k in range(0, n):
            for rest in itertools.product(SYMBOLS, repeat=k):
                syms = (first,) + rest
                check_read(mido, type_, 480,
                           [[(s, (0, 1, 128)[j % 3]) for j, s in enumerate(syms)]],
                           acc, dev if len(syms) <= 2 else 1)
        acc.sample({'read': [first] + list(rest), 'deviation_bound': dev},
                   cap=1)
    elif kind == 'read-run':
        # long running-status runs, broken by each other event kind
        for breaker in SYMBOLS:
            for n in (2, 3, 4):
                syms = ['on0'] * n + [breaker] + ['on0', 'on0b']
                check_read(mido, 1, 480, [[(s, 1) for s in syms]], acc, 0)
                check_write(mido, 1, 480, [[(s, 1) for s in syms]], acc)
        check_read(mido, 1, 480, [[('cc0', 0)] * 4, [('on1', 1)] * 3], acc, 1)
    elif kind == 'databounds':
        # every channel status family with its data bytes at 0, 1, 126, 127
        # (clip=True must leave them alone), twice in a row (running status)
        status = shard[1]
        two = (status & 0xF0) not in (0xC0, 0xD0)
        vals = (0, 1, 126, 127)
        for d1 in vals:
            for d2 in (vals if two else (None,)):
                sym = f'chx{status:02X}-{d1}' + (f'-{d2}' if two else '')
                for specs in ([[(sym, 0), (sym, 1)]],
                              [[('on0', 0), (sym, 127), ('sysexV126-0-127', 1)]]):
                    check_read(mido, 1, 480, specs, acc, 1)
                    check_write(mido, 1, 480, specs, acc)
        acc.sample({'data_byte_bounds_for_status': hex(status)}, cap=1)
    elif kind == 'long':
        # long payloads (block-wise readers/writers), followed by other
        # events and by another track
        fam = shard[1]
        for n in (127, 128, 255, 256, 1023, 1024, 1025, 2047, 2048, 2049,
                  4097, 5000, 16383, 16384, 70000):
            sym = f'{fam}{n}'
            for specs in ([[('on0', 1), (sym, 2), ('on0b', 0), ('cc0', 3)]],
                          [[(sym, 0)], [('on1', 1), (sym, 1), ('prog', 2)]],
                          [[(sym, 0), (sym, 128), ('eot', 0)]]):
                check_read(mido, 1, 480, specs, acc, 1 if n < 3000 else 0)
                check_write(mido, 1, 480, specs, acc)
        acc.sample({'long_payloads': fam, 'lengths': [127, 1024, 1025, 70000]},
                   cap=1)
    elif kind == 'clip':
        first = shard[1]
        for second in ('on0', 'prog', 'pitch', 'text1', 'sysex1'):
            check_clip(mido, [[(first, 0), (second, 1), ('cc0', 2)]], acc)
        acc.sample({'clip_substitution_in': [first, 'cc0']}, cap=1)
    return acc


def run():
    common.import_mido()
    thorough = common.tier() == 'thorough'
    rep = Report(PROP, 'exploration',
                 'exhaustive enumeration of event lists: saved bytes decoded '
                 'by an independent strict SMF decoder; every legal '
                 'alternative encoding (deviation-bounded over encoder '
                 'choices) loaded by mido')
    nw = 4 if thorough else 3
    nr = 3
    dev = 2
    shards = [('read-run',)]
    for type_ in (0, 1):
        shards += [('write', type_, s, nw) for s in SYMBOLS]
    shards += [('read', 1, s, nr, dev) for s in SYMBOLS]
    if thorough:
        shards += [('read', 0, s, nr, dev) for s in SYMBOLS]
    shards += [('clip', s) for s in ('on0', 'off0', 'cc0', 'prog', 'pitch')]
    shards += [('long', fam) for fam in ('sysexN', 'textN', 'unkN')]
    shards.append(('clip-sysex',))
    shards += [('databounds', st) for st in (0x80, 0x8F, 0x90, 0x9F, 0xA3,
                                             0xB0, 0xBF, 0xC0, 0xCF, 0xD5,
                                             0xE0, 0xEF)]
    run_shards(worker, shards, rep)
    rep.coverage['exhaustive'] = True
    rep.coverage['read_deviation_bound'] = dev
    rep.coverage['rule'] = (
        f'write: every single track of length <= {nw} over {len(SYMBOLS)} '
        f'event kinds (+ one boundary delta per position, two-track files, '
        f'running-status runs broken by every other kind): saved bytes must '
        f'decode under the reference strict decoder (exact chunk lengths, no '
        f'trailing bytes, running status never after meta/sysex/common, sysex '
        f'F0 len data F7, FF 2F 00 last) to the in-memory header and '
        f'normalised events with every variable-length quantity minimal. '
        f'read: every track of length <= {nr}: all 2^r running-status subsets '
        f'(r <= 4) and every set of <= {dev} deviations among header length '
        f'7/8/12 and 1-2 redundant 0x80 bytes on any delta or length, loaded '
        f'plain, with clip=True, with debug=True and with both (stdout captured): '
        f'identical messages. clip: every channel-message data byte replaced '
        f'by 0x80/0xF7/0xFF: clip=False raises, clip=True loads the list with '
        f'127 there. data bounds: every channel status family with data bytes '
        f'0/1/126/127 through all read options. long: sysex / text / unknown-meta payloads of 127..70000 '
        f'bytes (around 2^k) followed by other events and another track, '
        f'both directions. Non-trivial = any non-canonical choice / every write')
    rep.assumptions += [
        'system common messages stored raw are accepted as a documented '
        'mido extension of SMF',
        'alien chunks and SMPTE divisions are outside the statement',
    ]
    rep.require(rep.coverage.get('reads_with_running_status', 0) > 100,
                'running status never exercised in the read direction')
    # (the writer is allowed not to use running status at all; this is only
    # recorded, not required)
    rep.coverage.setdefault('writes_using_running_status', 0)
    return rep


def check_case(case):
    mido = common.import_mido()
    acc = Acc()
    if case['kind'] == 'clip-sysex':
        check_clip_sysex(mido, acc)
        return [(k, v[0][1]) for k, v in acc.viol.items()]
    specs = [[tuple(x) for x in sp] for sp in case['tracks']]
    if case['kind'] == 'write':
        check_write(mido, case['type'], case['tpb'], specs, acc)
    elif case['kind'] == 'read':
        check_read(mido, case['type'], case['tpb'], specs, acc, 2)
    else:
        check_clip(mido, specs, acc)
    return [(k, v[0][1]) for k, v in acc.viol.items()]


def replay(path):
    from ..replay import generic_replay
    return generic_replay(PROP, path, check_case)
