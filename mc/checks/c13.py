"""C13 - playback timing follows the tempo map.

E1 over files (tempo map vs an exact rational integral), E3 over consumer
delay / sleep overshoot patterns for play() on a harness-owned clock, E1 over
the tick<->second grid.
"""
import itertools
from fractions import Fraction

from .. import common
from ..engine_enum import Acc, run_shards
from ..evidence import Report
from .c16 import FakeClock, TimeShim, sig

PROP = 'C13'
TPBS = (1, 2, 96, 480, 32767)
KINDS = ('note', 'tempo1', 'tempo250000', 'tempoMax', 'text')
TEMPO = {'tempo1': 1, 'tempo250000': 250000, 'tempoMax': 16777215,
         'tempo500000': 500000, 'tempo600000': 600000}
# long files: (kind pattern, delta pattern) families
LONG_KINDS = {
    'default-tempo-again': ('note', 'tempo500000', 'note', 'tempo250000', 'note',
                            'tempo500000', 'text', 'tempo500000'),
    'same-tempo-repeated': ('tempo250000', 'note', 'tempo250000', 'note',
                            'tempo600000', 'tempo600000', 'note'),
    'many-changes': ('tempo1', 'note', 'tempoMax', 'note', 'tempo250000',
                     'text', 'tempo600000', 'note', 'tempo500000'),
    'notes-then-tempo': ('note',) * 9 + ('tempo250000',),
    'notes-only': ('note', 'text'),
}
LONG_DELTAS = {'unit': (1,), 'beat': (2,), 'zero-runs': (0, 0, 0, 2),
               'mixed': (0, 1, 2, 1, 0, 2, 2), 'zero': (0,)}
LONG_N = (6, 7, 8, 9, 10, 16, 17, 33, 100, 257, 1000)
LONG_TRACKS = (1, 2, 3, 5, 9)


def long_specs(k, n, kf, df):
    kinds, deltas = LONG_KINDS[kf], LONG_DELTAS[df]
    return [tuple((kinds[(pos + 2 * ti) % len(kinds)],
                   deltas[(pos + ti) % len(deltas)]) for pos in range(n))
            for ti in range(k)]
REL = 1e-9


def close(a, b):
    return abs(a - b) <= REL * max(abs(a), abs(b)) + 1e-12


FILE_VARIANT = ['plain']     # 'plain' | 'frozen' | 'subclass'


def build(mido, tpb, specs, type_=1):
    f = _build(mido, tpb, specs, type_)
    if FILE_VARIANT[0] == 'frozen':
        from mido.frozen import freeze_message
        f.tracks = [mido.MidiTrack(freeze_message(m) for m in t)
                    for t in f.tracks]
    elif FILE_VARIANT[0] == 'subclass':
        class MyMeta(mido.MetaMessage):
            pass

        class MyMsg(mido.Message):
            pass
        new = []
        for t in f.tracks:
            tr = mido.MidiTrack()
            for m in t:
                cls = MyMeta if isinstance(m, mido.MetaMessage) else MyMsg
                x = cls.__new__(cls)
                vars(x).update(vars(m))
                tr.append(x)
            new.append(tr)
        f.tracks = new
    return f


def _build(mido, tpb, specs, type_=1):
    tracks = []
    n = 0
    for ti, spec in enumerate(specs):
        tr = mido.MidiTrack()
        for kind, dsel in spec:
            delta = (0, 1, tpb)[dsel]
            n += 1
            if kind == 'note':
                tr.append(mido.Message('note_on', note=n % 128, time=delta))
            elif kind == 'text':
                tr.append(mido.MetaMessage('text', text=str(n), time=delta))
            else:
                tr.append(mido.MetaMessage('set_tempo', tempo=TEMPO[kind],
                                           time=delta))
        tracks.append(tr)
    return mido.MidiFile(type=type_, ticks_per_beat=tpb, tracks=tracks)


def exact_schedule(mido, f):
    """[(sig-without-time, exact cumulative seconds)] from the tempo-map
    integral over the merged order (independent of MidiFile.__iter__)."""
    ev = []
    for ti, tr in enumerate(f.tracks):
        now = 0
        for idx, m in enumerate(tr):
            now += m.time
            if m.type != 'end_of_track':
                ev.append((now, ti, idx, m))
    ev.sort(key=lambda e: e[:3])
    total_ticks = max([sum(m.time for m in tr) for tr in f.tracks] or [0])
    tempo = 500000
    t = Fraction(0)
    last = 0
    out = []
    for tick, _, _, m in ev:
        t += Fraction((tick - last) * tempo, 1000000 * f.ticks_per_beat)
        last = tick
        out.append((nosig(m), t))
        if m.type == 'set_tempo':
            tempo = m.tempo
    t += Fraction((total_ticks - last) * tempo, 1000000 * f.ticks_per_beat)
    out.append((('MetaMessage', (('type', 'end_of_track'),)), t))
    return out


def nosig(m):
    d = dict(vars(m))
    d.pop('time', None)
    kind = 'MetaMessage' if 'Meta' in type(m).__name__ or any(
        'Meta' in b.__name__ for b in type(m).__mro__) else 'Message'
    return (kind, tuple(sorted(d.items())))


def check_file(mido, tpb, specs, acc, long=None):
    if FILE_VARIANT[0] == 'plain' and acc.evals % 7 == 0 and any(specs):
        for v in ('frozen', 'subclass'):
            FILE_VARIANT[0] = v
            try:
                check_file(mido, tpb, specs, acc, long)
            finally:
                FILE_VARIANT[0] = 'plain'
    if long is None:
        case = {'kind': 'file', 'tpb': tpb, 'variant': FILE_VARIANT[0],
                'tracks': [list(map(list, s)) for s in specs]}
    else:
        case = {'kind': 'file', 'tpb': tpb, 'variant': FILE_VARIANT[0],
                'long': list(long)}
    f = build(mido, tpb, specs)
    sched = exact_schedule(mido, f)
    acc.evals += 1
    if any(k.startswith('tempo') for s in specs for k, _ in s):
        acc.nontrivial += 1
    try:
        msgs = list(f)
        length = f.length
    except Exception as e:
        acc.violation(f'iter-raises/{type(e).__name__}',
                      f'iterating {case} raised {e!r}', case)
        return
    if [nosig(m) for m in msgs] != [s for s, _ in sched]:
        acc.violation('iter/messages-or-order',
                      f'{case}: iteration gave '
                      f'{str([nosig(m) for m in msgs])[:600]}, '
                      f'expected {str([s for s, _ in sched])[:600]}', case)
        return
    cum = 0.0
    for m, (_, t) in zip(msgs, sched):
        cum += m.time
        if m.time < 0 or not close(cum, float(t)):
            which = 'after-tempo-change' if any(
                x.type == 'set_tempo' for x in msgs[:msgs.index(m)]) else \
                'default-tempo'
            acc.violation(f'iter/cumulative-time/{which}',
                          f'{case}: message {m!r} at cumulative {cum!r} s, '
                          f'exact tempo-map integral {float(t)!r} '
                          f'({t})', case)
            return
    want_len = float(sched[-1][1]) if sched else 0.0
    if not isinstance(length, (int, float)) or isinstance(length, bool):
        acc.violation('length/not-a-number',
                      f'{case}: length is {length!r}', case)
        return
    if not close(length, want_len) or not close(length, cum):
        acc.violation('length',
                      f'{case}: length {length!r}, last cumulative time '
                      f'{cum!r}, exact {want_len!r}', case)


def check_type2(mido, acc):
    f = build(mido, 480, [(('note', 1),), (('note', 1),)], type_=2)
    for name, fn in (('iter', lambda: list(f)), ('length', lambda: f.length),
                     ('play', lambda: list(f.play(now=lambda: 0.0)))):
        acc.evals += 1
        try:
            r = fn()
        except (TypeError, ValueError):
            pass
        except Exception as e:
            acc.violation(f'type2/{name}/{type(e).__name__}',
                          f'type 2 file: {name} raised {e!r}',
                          {'kind': 'type2', 'what': name})
        else:
            acc.violation(f'type2/{name}/accepted',
                          f'type 2 file: {name} returned {r!r}',
                          {'kind': 'type2', 'what': name})


# ---------------------------------------------------------------- play
DELAYS = (0.0, 0.25, 3.0)          # multiples of the gap to the next message
OVERSHOOT = (0.0, 0.125)           # seconds added by a sleep that overshoots


CLOCK_STARTS = (100.0, 0.0, -7.5)


def run_play(mido, f, delays, overs, meta, clock_start=100.0):
    import mido.midifiles.midifiles as mm
    clock = FakeClock()
    clock.t = clock_start
    over_iter = iter(overs)
    log = []

    class Shim(TimeShim):
        def sleep(self, d):
            o = next(over_iter, 0.0)
            log.append(('sleep', d, clock.t))
            clock.sleep(d + o if d > 0 else d)

    real = mm.time
    mm.time = Shim(clock, real)
    try:
        start = clock.t
        out = []
        gen = f.play(meta_messages=meta, now=clock.now)
        i = 0
        for m in gen:
            out.append((m, clock.t - start))
            log.append(('yield', m, clock.t))
            d = delays[i] if i < len(delays) else 0.0
            i += 1
            clock.t += d
        return out, log, start
    finally:
        mm.time = real


def check_play(mido, tpb, specs, acc, max_dev):
    f = build(mido, tpb, specs)
    sched = exact_schedule(mido, f)
    for meta in (False, True):
        exp = [(s, float(t)) for s, t in sched
               if meta or s[0] != 'MetaMessage']
        n = len(exp)
        gaps = [exp[i + 1][1] - exp[i][1] for i in range(n - 1)] + [0.0]
        nsleep = len(sched)
        # deviation-bounded enumeration: consumer delay per yielded message,
        # overshoot per sleep; default = no delay, no overshoot
        choices = []
        for i in range(n):
            choices.append([('delay', i, k) for k in (1, 2)])
        for j in range(nsleep):
            choices.append([('over', j, 1)])
        flat = [c for grp in choices for c in grp]
        devsets = [()]
        for r in range(1, max_dev + 1):
            for combo in itertools.combinations(flat, r):
                pos = [(c[0], c[1]) for c in combo]
                if len(set(pos)) == len(pos):
                    devsets.append(combo)
        for devs in devsets:
            delays = [0.0] * n
            overs = [0.0] * nsleep
            for kind, i, k in devs:
                if kind == 'delay':
                    delays[i] = DELAYS[k] * (gaps[i] if gaps[i] > 0 else 0.5)
                else:
                    overs[i] = OVERSHOOT[k]
            acc.evals += 1
            if devs:
                acc.nontrivial += 1
            case = {'kind': 'play', 'tpb': tpb,
                    'tracks': [list(map(list, s)) for s in specs],
                    'meta': meta, 'deviations': [list(d) for d in devs]}
            cstart = CLOCK_STARTS[(len(devs) + acc.evals) % len(CLOCK_STARTS)]
            case['clock_start'] = cstart
            try:
                out, log, start = run_play(mido, f, delays, overs, meta, cstart)
            except Exception as e:
                acc.violation(f'play-raises/{type(e).__name__}',
                              f'{case} raised {e!r}', case)
                continue
            if [nosig(m) for m, _ in out] != [s for s, _ in exp]:
                acc.violation('play/messages' + ('/meta' if meta else ''),
                              f'{case}: yielded {[nosig(m) for m, _ in out]}, '
                              f'expected {[s for s, _ in exp]}', case)
                continue
            # lateness is legitimate only when a sleep overshot or the
            # consumer took longer than the gap to the next message
            late_allowed = any(d[0] == 'over' for d in devs) or any(
                delays[i] >= gaps[i] for i in range(n) if delays[i] > 0)
            bad = None
            for (m, at), (s, t) in zip(out, exp):
                if at < t - 1e-9 * max(1.0, t):
                    bad = ('play/early', f'{m!r} yielded at {at!r} s, '
                           f'scheduled at {t!r} s')
                    break
                if not late_allowed and not close(at, t) and abs(at - t) > 1e-9:
                    bad = ('play/drift', f'{m!r} yielded at {at!r} s, '
                           f'scheduled at {t!r} s although the consumer was '
                           f'never later than the next message')
                    break
            if bad is None:
                # every sleep is exactly the remaining time to the schedule
                it = iter(sched)
                cum_sched = [float(t) for _, t in sched]
                k = 0
                for entry in log:
                    if entry[0] != 'sleep':
                        continue
                    d, at = entry[1], entry[2] - start
                    # the sleep must end (without overshoot) at the time of
                    # some scheduled message that is still in the future
                    target = at + d
                    if d <= 0:
                        bad = ('play/nonpositive-sleep', f'sleep({d!r})')
                        break
                    if not any(close(target, c) or abs(target - c) < 1e-9
                               for c in cum_sched):
                        bad = ('play/sleep-not-remaining-time',
                               f'sleep({d!r}) at {at!r} s ends at {target!r} '
                               f's, which is no scheduled time {cum_sched}')
                        break
            if bad is not None:
                acc.violation(bad[0], f'{case}: {bad[1]}', case)


def check_play_long(mido, tpb, n, kf, df, acc):
    """play() on a file of n messages with ONE deviation (a consumer delay of
    three gaps, or a sleep overshoot) at each position: nothing is early, and
    whenever play() slept (without overshoot) right before a message, that
    message comes out exactly on schedule - lateness never accumulates."""
    long = (1, n, kf, df)
    f = build(mido, tpb, long_specs(*long))
    sched = exact_schedule(mido, f)
    exp = [(s, float(t)) for s, t in sched]
    m_ = len(exp)
    gaps = [exp[i + 1][1] - exp[i][1] for i in range(m_ - 1)] + [0.0]
    if m_ <= 130:
        positions = range(m_)
    else:
        positions = [i for i in range(m_) if i % 64 in (62, 63, 0, 1)
                     or i % 100 == 99 or i < 4 or i > m_ - 4]
    for kind in ('delay', 'over'):
        for pos in positions:
            delays = [0.0] * m_
            overs = [0.0] * m_
            if kind == 'delay':
                delays[pos] = 3.0 * (gaps[pos] if gaps[pos] > 0 else 0.5)
            else:
                overs[pos] = 0.125
            acc.evals += 1
            acc.nontrivial += 1
            case = {'kind': 'playlong', 'tpb': tpb, 'long': list(long),
                    'deviation': [kind, pos]}
            try:
                out, log, start = run_play(mido, f, delays, overs, True,
                                           CLOCK_STARTS[pos % 3])
            except Exception as e:
                acc.violation(f'play-raises/{type(e).__name__}',
                              f'{case} raised {e!r}', case)
                return
            if [nosig(m) for m, _ in out] != [s for s, _ in exp]:
                acc.violation('play/messages/long',
                              f'{case}: yielded {len(out)} messages, expected '
                              f'{len(exp)} (or other content/order)', case)
                return
            bad = None
            slept_clean = False
            k = 0
            nsleep = 0
            for entry in log:
                if entry[0] == 'sleep':
                    if entry[1] <= 0:
                        bad = ('play/nonpositive-sleep', f'sleep({entry[1]!r})')
                        break
                    slept_clean = overs[nsleep] == 0.0 if nsleep < m_ else True
                    nsleep += 1
                    continue
                at, t = entry[2] - start, exp[k][1]
                if at < t - 1e-9 * max(1.0, t):
                    bad = ('play/early', f'message {k} yielded at {at!r} s, '
                           f'scheduled at {t!r} s')
                    break
                if slept_clean and not close(at, t) and abs(at - t) > 1e-9:
                    bad = ('play/drift', f'message {k} of {m_} yielded at '
                           f'{at!r} s right after a sleep, scheduled at {t!r} '
                           f's: the sleep was not the remaining time')
                    break
                slept_clean = False
                k += 1
            if bad is not None:
                acc.violation(bad[0] + '/long', f'{case}: {bad[1]}', case)
                return


def seqs(n, kinds=KINDS):
    syms = [(k, d) for k in kinds for d in (0, 1, 2)]
    for k in range(n + 1):
        yield from itertools.product(syms, repeat=k)


def worker(shard):
    mido = common.import_mido()
    acc = Acc()
    kind = shard[0]
    if kind == 'one':
        tpb, first, n = shard[1], shard[2], shard[3]
        for rest in seqs(n - 1):
            check_file(mido, tpb, [(first,) + rest], acc)
        acc.sample({'tpb': tpb, 'track': [list(first)]}, cap=1)
    elif kind == 'two':
        tpb, t0, n = shard[1], shard[2], shard[3]
        for t1 in seqs(n, KINDS[:4]):
            check_file(mido, tpb, [t0, t1], acc)
    elif kind == 'long':
        tpb, k = shard[1], shard[2]
        for n in LONG_N:
            if k * n > 3000:
                continue
            for kf in LONG_KINDS:
                for df in LONG_DELTAS:
                    check_file(mido, tpb, long_specs(k, n, kf, df), acc,
                               long=(k, n, kf, df))
        acc.sample({'tpb': tpb, 'tracks': k, 'events_per_track': list(LONG_N),
                    'kind_patterns': list(LONG_KINDS),
                    'delta_patterns': list(LONG_DELTAS)}, cap=1)
    elif kind == 'playlong':
        tpb, n = shard[1], shard[2]
        for kf in ('many-changes', 'notes-only', 'default-tempo-again'):
            for df in ('unit', 'mixed'):
                check_play_long(mido, tpb, n, kf, df, acc)
        acc.sample({'play_tpb': tpb, 'messages': n,
                    'one_deviation_at': 'every position (n <= 130) or around '
                                        'multiples of 64 and 100'}, cap=1)
    elif kind == 'misc':
        check_type2(mido, acc)
        for tpb in TPBS:
            check_file(mido, tpb, [], acc)
            check_file(mido, tpb, [()], acc)
    elif kind == 'play':
        tpb, first, n, dev = shard[1], shard[2], shard[3], shard[4]
        for rest in seqs(n - 1, ('note', 'tempo250000', 'text')):
            check_play(mido, tpb, [(first,) + rest], acc, dev)
        acc.sample({'play_tpb': tpb, 'first': list(first),
                    'deviation_bound': dev}, cap=1)
    elif kind == 'play2':
        tpb, dev = shard[1], shard[2]
        for t0 in seqs(2, ('note', 'tempo250000')):
            for t1 in seqs(1, ('note', 'text')):
                check_play(mido, tpb, [t0, t1], acc, dev)
    elif kind == 'units':
        tpb, tempos, ticks = shard[1], shard[2], shard[3]
        for tempo in tempos:
            for t in ticks:
                acc.evals += 1
                acc.nontrivial += 1
                s = mido.tick2second(t, tpb, tempo)
                back = mido.second2tick(s, tpb, tempo)
                if back != t or type(back) is not int:
                    acc.violation('units/not-inverse',
                                  f'second2tick(tick2second({t}, {tpb}, '
                                  f'{tempo})) = {back!r}',
                                  {'kind': 'units', 't': t, 'tpb': tpb,
                                   'tempo': tempo})
                exact = Fraction(t * tempo, 1000000 * tpb)
                if not close(s, float(exact)):
                    acc.violation('units/tick2second-value',
                                  f'tick2second({t}, {tpb}, {tempo}) = {s!r}, '
                                  f'exact {float(exact)!r}',
                                  {'kind': 'units', 't': t, 'tpb': tpb,
                                   'tempo': tempo})
        acc.sample({'units_tpb': tpb, 'tempos': list(tempos)}, cap=1)
    return acc


def run():
    common.import_mido()
    thorough = common.tier() == 'thorough'
    rep = Report(PROP, 'exploration',
                 'exhaustive enumeration of small files (tempo map vs exact '
                 'rational integral), deviation-bounded consumer-delay/'
                 'overshoot patterns for play() on an owned clock, tick grid')
    n1, n2 = (4, 2) if thorough else (3, 2)
    syms = [(k, d) for k in KINDS for d in (0, 1, 2)]
    shards = [('misc',)]
    for tpb in TPBS:
        shards += [('one', tpb, s, n1) for s in syms]
        if thorough or tpb in (1, 480):
            shards += [('two', tpb, t0, n2) for t0 in seqs(n2, KINDS[:4])]
    for tpb in TPBS:
        shards += [('long', tpb, k) for k in LONG_TRACKS]
    dev = 2
    psyms = [(k, d) for k in ('note', 'tempo250000', 'text') for d in (0, 1, 2)]
    for tpb in (480, 1) if not thorough else (480, 1, 32767):
        shards += [('play', tpb, s, 3 if not thorough else 4, dev)
                   for s in psyms]
        shards.append(('play2', tpb, dev))
    for n in (6, 10, 33, 100, 255, 256, 257, 300, 520, 1030):
        shards.append(('playlong', 480 if n % 2 else 96, n))
    ticks = tuple(range(0, 4096)) + tuple(
        v for k in range(12, 29) for v in ((1 << k) - 1, 1 << k))
    tempos = (1, 2, 3, 7, 250000, 500000, 500001, 16777215)
    for tpb in (1, 2, 3, 24, 96, 480, 960, 32767):
        shards.append(('units', tpb, tempos, ticks))
    run_shards(worker, shards, rep)
    rep.coverage['exhaustive'] = True
    rep.coverage['play_deviation_bound'] = dev
    rep.coverage['rule'] = (
        f'files: ticks_per_beat {list(TPBS)} x one track of length <= {n1} / '
        f'two tracks of length <= {n2} over {{note, set_tempo(1), '
        f'set_tempo(250000), set_tempo(16777215), text}} x delta {{0, 1, '
        f'tpb}}; cumulative time of every iterated message and length '
        f'compared (1e-9 relative) with the exact rational tempo-map '
        f'integral; long files of {list(LONG_TRACKS)} tracks x '
        f'{list(LONG_N)} events (<= 3000 in all) x {len(LONG_KINDS)} event '
        f'patterns (the default tempo set explicitly, the same tempo '
        f'repeated, many changes) x {len(LONG_DELTAS)} delta patterns; '
        f'type 2 must refuse iter/length/play. play(): files of '
        f'length <= 3 x every set of <= {dev} deviations from the default '
        f'environment (consumer delay 0.25 or 3 gaps after a yield, sleep '
        f'overshoot 0.125 s) on a harness clock: never early, no drift when '
        f'the consumer keeps up, every sleep ends exactly at a scheduled '
        f'time, meta messages only on request; long files of 6..1030 '
        f'messages with one consumer delay or sleep overshoot at each '
        f'position. units: second2tick('
        f'tick2second(t)) == t for t in 0..4095 and 2**k-1, 2**k (k<=28) x 8 '
        f'tpb x 8 tempos. Non-trivial file = contains a tempo change; '
        f'non-trivial play = >= 1 deviation')
    rep.assumptions += [
        'float comparisons use a 1e-9 relative tolerance against exact '
        'rationals',
        'the clock is the harness variable passed as now= and advanced by '
        'the replaced time.sleep',
    ]
    return rep


def check_case(case):
    mido = common.import_mido()
    acc = Acc()
    if case['kind'] == 'file':
        long = tuple(case['long']) if 'long' in case else None
        specs = long_specs(*long) if long else [
            tuple(tuple(x) for x in s) for s in case['tracks']]
        FILE_VARIANT[0] = case.get('variant', 'plain')
        try:
            check_file(mido, case['tpb'], specs, acc, long)
        finally:
            FILE_VARIANT[0] = 'plain'
    elif case['kind'] == 'play':
        specs = [tuple(tuple(x) for x in s) for s in case['tracks']]
        check_play(mido, case['tpb'], specs, acc, 2)
    elif case['kind'] == 'playlong':
        _, n, kf, df = case['long']
        check_play_long(mido, case['tpb'], n, kf, df, acc)
    elif case['kind'] == 'type2':
        check_type2(mido, acc)
    elif case['kind'] == 'units':
        return [(k, v[0][1]) for k, v in worker(
            ('units', case['tpb'], (case['tempo'],), (case['t'],))).viol.items()]
    return [(k, v[0][1]) for k, v in acc.viol.items()]


def replay(path):
    from ..replay import generic_replay
    return generic_replay(PROP, path, check_case)
