"""C19 - SYX files round-trip sysex messages (E1)."""
import itertools
import os
import shutil

from .. import common
from ..engine_enum import Acc, run_shards
from ..evidence import Report

PROP = 'C19'
SEPS = (' ', '\n', '\t', '\r\n', '  ', '\x0b', '\x0c', ' \n ')
ALL_WS = tuple(chr(c) for c in range(256) if chr(c).isspace())
BAD_TEXT = ('F0 1 F7', 'F0 0G F7', 'F0 01 F', 'xyz', 'F0 01 F7 F', '0xF0 0xF7',
            'F0,01,F7', 'G0 01 F7', '1')


def alphabet(mido):
    M = mido.Message
    from mido.frozen import freeze_message as freeze
    return [
        M('sysex'),
        M('sysex', data=(1,)),
        M('sysex', data=(0, 0x7F, 0x40)),
        M('sysex', data=tuple(i & 0x7F for i in range(300))),
        M('note_on', note=60),
        M('clock'),
        M('songpos', pos=300),
        M('sysex', data=(0x7F,)),
        mido.MetaMessage('end_of_track'),
        mido.MetaMessage('text', text='x'),
        mido.UnknownMetaMessage(0x60, data=(1,)),
        freeze(M('sysex', data=(9, 8))),
        freeze(M('note_on')),
    ]


def sx(m):
    return tuple(m.data)


def check_list(mido, d, msgs, acc, idx_desc):
    want = [sx(m) for m in msgs if m.type == 'sysex']
    for plaintext in (False, True):
        acc.evals += 1
        if want and len(msgs) > len(want):
            acc.nontrivial += 1
        fn = os.path.join(d, f'f{os.getpid()}.syx')
        case = {'kind': 'list', 'msgs': idx_desc, 'plaintext': plaintext}
        # the list is handed over in a rotating container form (list, tuple,
        # generator, iterator, filter object)
        form = (list, tuple, lambda q: (m for m in q), iter,
                lambda q: filter(None, q))[(acc.evals + len(msgs)) % 5]
        try:
            mido.write_syx_file(fn, form(msgs), plaintext=plaintext)
            got = mido.read_syx_file(fn)
        except Exception as e:
            acc.violation(f'roundtrip-raises/{"text" if plaintext else "binary"}'
                          f'/{type(e).__name__}',
                          f'messages {idx_desc} plaintext={plaintext}: {e!r}',
                          case)
            continue
        ok = (isinstance(got, list)
              and all(type(m) is mido.Message and m.type == 'sysex'
                      for m in got)
              and [sx(m) for m in got] == want)
        # what is in the file is the SYX format itself (other tools read it):
        # binary = the F0 .. F7 encodings back to back; text = two-digit hex
        # of the same bytes separated by whitespace
        try:
            raw = open(fn, 'rb').read()
            flat = bytes(b for w in want for b in (0xF0, *w, 0xF7))
            if plaintext:
                toks = raw.decode('latin1').split()
                in_file = bytes(int(t, 16) for t in toks) if all(
                    len(t) == 2 for t in toks) else None
            else:
                in_file = raw
            if in_file != flat:
                acc.violation(f'file-format/{"text" if plaintext else "binary"}',
                              f'messages {idx_desc} plaintext={plaintext}: '
                              f'file holds {raw[:60]!r}..., expected the '
                              f'encodings {flat[:40].hex()}...', case)
        except Exception as e:
            acc.violation(f'file-format-raises/{type(e).__name__}', f'{e!r}',
                          case)
        if ok and got:
            # history: change what was returned, read the same file again;
            # then overwrite it with a shorter list
            try:
                got[0].data = (0x11, 0x22)
                again = mido.read_syx_file(fn)
                if [sx(m) for m in again] != want:
                    acc.violation('reread-differs',
                                  f'messages {idx_desc}: second read of the '
                                  f'same file gave {again!r}', case)
                shorter = [m for m in msgs if m.type == 'sysex'][:1]
                mido.write_syx_file(fn, shorter, plaintext=plaintext)
                after = mido.read_syx_file(fn)
                if [sx(m) for m in after] != [sx(m) for m in shorter]:
                    acc.violation('overwrite-keeps-old-content',
                                  f'messages {idx_desc} then {len(shorter)} '
                                  f'message written to the same file: read '
                                  f'{after!r}', case)
            except Exception as e:
                acc.violation(f'reread-raises/{type(e).__name__}', f'{e!r}',
                              case)
        if not ok:
            kind = ('empty-payload' if () in want else
                    'no-sysex' if not want else 'content')
            acc.violation(f'roundtrip/{"text" if plaintext else "binary"}/{kind}',
                          f'messages {idx_desc} plaintext={plaintext}: read '
                          f'back {got!r}, expected data {want}', case)


def check_layout(mido, d, payload_bytes, seps, lead, trail, lower, acc):
    """Plain-text file with given separators between hex bytes."""
    hexes = [('%02x' if lower else '%02X') % b for b in payload_bytes]
    text = lead + ''.join(h + (seps[i] if i < len(seps) else '')
                          for i, h in enumerate(hexes)) + trail
    fn = os.path.join(d, f'l{os.getpid()}.syx')
    with open(fn, 'wb') as f:
        f.write(text.encode('latin1'))
    acc.evals += 1
    acc.nontrivial += 1
    want = mido.parse_all(list(payload_bytes))
    want = [sx(m) for m in want if m.type == 'sysex']
    case = {'kind': 'layout', 'text': text, 'payload': list(payload_bytes)}
    try:
        got = mido.read_syx_file(fn)
    except Exception as e:
        acc.violation(f'layout-raises/{type(e).__name__}',
                      f'text {text!r}: {e!r}', case)
        return
    if [sx(m) for m in got] != want:
        acc.violation('layout/content',
                      f'text {text!r}: read {got!r}, expected {want}', case)


def worker(shard):
    mido = common.import_mido()
    acc = Acc()
    d = common.scratch_dir()
    try:
        alpha = alphabet(mido)
        kind = shard[0]
        if kind == 'lists':
            first, n = shard[1], shard[2]
            for k in range(0, n):
                for rest in itertools.product(range(len(alpha)), repeat=k):
                    idx = (first,) + rest
                    check_list(mido, d, [alpha[i] for i in idx], acc, list(idx))
            acc.sample({'message_list_indices': list(idx)}, cap=1)
        elif kind == 'misc':
            check_list(mido, d, [], acc, [])
            big = mido.Message('sysex', data=tuple((i * 3) & 0x7F
                                                   for i in range(5000)))
            check_list(mido, d, [big, alpha[0], big], acc, ['5000', 0, '5000'])
            # many messages: binary sizes at and around block boundaries
            for total in (4095, 4096, 4097, 8191, 8192, 8200, 12288, 65536,
                          70001):
                for unit in (12, 252):
                    msgs, remaining, j = [], total, 0
                    while remaining >= 2 * unit:
                        msgs.append(mido.Message('sysex', data=tuple(
                            (j + i) & 0x7F for i in range(unit - 2))))
                        remaining -= unit
                        j += 1
                    msgs.append(mido.Message('sysex',
                                             data=(j & 0x7F,) * (remaining - 2)))
                    check_list(mido, d, msgs, acc,
                               [f'{len(msgs)} messages, {total} bytes'])
            for n in (6, 10, 100, 1000):
                same = mido.Message('sysex', data=(1, 2, 3))
                check_list(mido, d, [same] * n, acc, [f'{n} x the same'])
                check_list(mido, d, [mido.Message('sysex', data=(i & 0x7F,) * (i % 9))
                                     for i in range(n)], acc, [f'{n} varied'])
            for bad in BAD_TEXT:
                fn = os.path.join(d, 'bad.syx')
                with open(fn, 'w') as f:
                    f.write(bad)
                acc.evals += 1
                acc.nontrivial += 1
                try:
                    got = mido.read_syx_file(fn)
                except ValueError:
                    pass
                except Exception as e:
                    acc.violation(f'bad-text/{type(e).__name__}',
                                  f'{bad!r} raised {e!r}',
                                  {'kind': 'bad', 'text': bad})
                else:
                    acc.violation('bad-text/accepted',
                                  f'{bad!r} read as {got!r}; ValueError expected',
                                  {'kind': 'bad', 'text': bad})
            # empty file
            fn = os.path.join(d, 'empty.syx')
            open(fn, 'wb').close()
            acc.evals += 1
            if mido.read_syx_file(fn) != []:
                acc.violation('empty-file', 'empty file did not read as []',
                              {'kind': 'empty'})
        elif kind == 'tokens':
            # every way of placing whitespace between the hex digits of a
            # small file: a token with an odd number of digits is not
            # two-digit hex and must raise ValueError; all-two-digit layouts
            # must parse; longer even tokens are not judged.
            for digits in ('F0F7', 'F001F7', 'F01234F7', 'F07FF7F0F7'):
                n = len(digits)
                want = [sx(m) for m in mido.parse_all(
                    list(bytes.fromhex(digits))) if m.type == 'sysex']
                for mask in range(1 << (n - 1)):
                    for sep in (' ', '\n', '\t ') if mask else (' ',):
                        text = digits[0]
                        for i in range(1, n):
                            if mask >> (i - 1) & 1:
                                text += sep
                            text += digits[i]
                        toks = text.split()
                        odd = any(len(t) % 2 for t in toks)
                        two = all(len(t) == 2 for t in toks)
                        if not odd and not two:
                            continue
                        fn = os.path.join(d, 'tok.syx')
                        with open(fn, 'w') as f:
                            f.write(text + '\n')
                        acc.evals += 1
                        acc.nontrivial += 1
                        case = {'kind': 'tokens', 'text': text}
                        try:
                            got = mido.read_syx_file(fn)
                        except ValueError:
                            if two:
                                acc.violation('tokens/rejected-valid',
                                              f'{text!r} raised ValueError',
                                              case)
                        except Exception as e:
                            acc.violation(f'tokens/{type(e).__name__}',
                                          f'{text!r} raised {e!r}', case)
                        else:
                            if odd:
                                acc.violation(
                                    'tokens/accepted-not-two-digit-hex',
                                    f'{text!r} (a token with an odd number of '
                                    f'digits) read as {got!r}; ValueError '
                                    f'expected', case)
                            elif [sx(m) for m in got] != want:
                                acc.violation('tokens/content',
                                              f'{text!r} read as {got!r}', case)
            acc.sample({'token_layouts_of': ['F0F7', 'F001F7', 'F01234F7']},
                       cap=1)
        elif kind == 'wrapped':
            # hex dumps wrapped over lines, k bytes per line, of payloads
            # with repeated content (identical neighbouring lines)
            patterns = {'zeros': lambda i: 0, 'period16': lambda i: i % 16,
                        'period2': lambda i: (1, 1, 2)[i % 3],
                        'varied': lambda i: (i * 7) & 0x7F}
            for name, fn_ in patterns.items():
                for n in (3, 5, 31, 63, 64, 300, 5000):
                    body = [0xF0] + [fn_(i) for i in range(n)] + [0xF7]
                    stream = body + body + [0xF0, 0xF7] + body
                    for per_line in (1, 2, 3, 8, 16, 32):
                        for style in ('stream', 'per-message'):
                            acc.evals += 1
                            acc.nontrivial += 1
                            if style == 'stream':
                                lines = [stream[i:i + per_line] for i in
                                         range(0, len(stream), per_line)]
                            else:
                                lines = []
                                for msg in (body, body, [0xF0, 0xF7], body):
                                    lines += [msg[i:i + per_line] for i in
                                              range(0, len(msg), per_line)]
                            text = '\n'.join(' '.join('%02X' % b for b in ln)
                                             for ln in lines) + '\n'
                            p = os.path.join(d, 'wrap.syx')
                            with open(p, 'w') as f:
                                f.write(text)
                            want = [tuple(body[1:-1])] * 2 + [()] + [
                                tuple(body[1:-1])]
                            case = {'kind': 'wrapped', 'pattern': name, 'n': n,
                                    'per_line': per_line, 'style': style}
                            try:
                                got = [sx(m) for m in mido.read_syx_file(p)]
                            except Exception as e:
                                acc.violation(
                                    f'wrapped/raises/{type(e).__name__}',
                                    f'{case}: {e!r}', case)
                                continue
                            if got != want:
                                acc.violation(
                                    'wrapped/content',
                                    f'{case}: read {len(got)} messages with '
                                    f'{[len(g) for g in got]} data bytes, '
                                    f'expected 4 with {[len(w) for w in want]}',
                                    case)
            acc.sample({'wrapped_hex_dumps': list(patterns),
                        'bytes_per_line': [1, 2, 3, 8, 16, 32]}, cap=1)
        elif kind == 'layout':
            payloads = ([0xF0, 0xF7], [0xF0, 0x01, 0xF7],
                        [0xF0, 0x7F, 0x00, 0xF7], [0xF0, 0xF7, 0xF0, 0x05, 0xF7],
                        [0xF0, 1, 2, 3, 0xF7], [0xF0, 1, 1, 2, 0xF7],
                        [0xF0, 0xF7, 0xF0, 0xF7], [0xF0, 0, 0, 0xF7])
            pl = payloads[shard[1]]
            # every whitespace character of the file's one-byte encoding, one
            # gap at a time
            for gap in range(len(pl) - 1):
                for ws in ALL_WS:
                    seps = [' '] * (len(pl) - 1)
                    seps[gap] = ws
                    check_layout(mido, d, pl, tuple(seps), '', '\n', False, acc)
                    check_layout(mido, d, pl, (ws,) * (len(pl) - 1), ws, ws,
                                 True, acc)
            for seps in itertools.product(SEPS, repeat=len(pl) - 1):
                for lead, trail, lower in (('', '\n', False), (' ', '', True),
                                           ('\n\t', ' \r\n', False)):
                    if lead and seps[0] != SEPS[0] and shard[1] >= 3:
                        continue
                    check_layout(mido, d, pl, seps, lead, trail, lower, acc)
            acc.sample({'layout_payload': pl, 'separators': list(SEPS)}, cap=1)
    finally:
        shutil.rmtree(d, ignore_errors=True)
    return acc


def run():
    mido = common.import_mido()
    thorough = common.tier() == 'thorough'
    rep = Report(PROP, 'exploration',
                 'exhaustive enumeration of message lists x formats x '
                 'whitespace layouts through real files')
    n = 4 if thorough else 3
    shards = [('misc',), ('tokens',)]
    shards += [('lists', i, n) for i in range(len(alphabet(mido)))]
    shards += [('layout', i) for i in range(8 if thorough else 4)]
    shards += [('layout', i) for i in (() if thorough else (5, 6, 7))]
    shards.append(('wrapped',))
    run_shards(worker, shards, rep)
    rep.coverage['exhaustive'] = True
    rep.coverage['rule'] = (
        f'every message list of length <= {n} over 13 messages (sysex with '
        f'payload 0/1/3/300 bytes and 0x7F, note_on, clock, songpos, meta and unknown meta messages, frozen messages) and the '
        f'empty list, written and read back in binary and plain-text format; '
        f'plain-text layouts: every assignment of a separator from '
        f'{[repr(s) for s in SEPS]} to each gap of 4-5 small files, with '
        f'leading/trailing whitespace and lower-case hex; hex dumps wrapped '
        f'at 1/2/3/8/16/32 bytes per line of payloads with repeated content '
        f'(3..5000 bytes); lists of 6..1000 equal or varied messages and '
        f'binary sizes around 4096/8192/65536 bytes; invalid text '
        f'{list(BAD_TEXT)} must raise ValueError; every placement of whitespace between the hex digits of 4 small files (odd-length tokens must raise, all-two-digit layouts must parse). Non-trivial = list mixes '
        f'sysex and other messages, or any layout/invalid-text case')
    rep.assumptions += ['"any whitespace" is read as every character of the '
                        'latin1-decoded text for which str.isspace() holds '
                        '(the six ASCII ones, 0x1C-0x1F, 0x85, 0xA0), which is '
                        'what the reader documents by decoding as latin1',
                        'files are written to a tmpfs scratch directory',
                        'payload contents beyond the listed ones behave alike']
    return rep


def check_case(case):
    mido = common.import_mido()
    acc = Acc()
    d = common.scratch_dir()
    try:
        if case['kind'] == 'wrapped' or (case['kind'] == 'list' and any(
                not isinstance(i, int) for i in case['msgs'])):
            w = worker(('wrapped',) if case['kind'] == 'wrapped' else ('misc',))
            return [(k, v[0][1]) for k, v in w.viol.items()]
        if case['kind'] == 'list':
            alpha = alphabet(mido)
            msgs = [alpha[i] for i in case['msgs'] if isinstance(i, int)]
            check_list(mido, d, msgs, acc, case['msgs'])
        elif case['kind'] == 'layout':
            fn = os.path.join(d, 'x.syx')
            with open(fn, 'wb') as f:
                f.write(case['text'].encode('latin1'))
            want = [sx(m) for m in mido.parse_all(case['payload'])
                    if m.type == 'sysex']
            try:
                got = mido.read_syx_file(fn)
                if [sx(m) for m in got] != want:
                    acc.violation('layout', f'read {got!r}, expected {want}')
            except Exception as e:
                acc.violation('layout-raises', repr(e))
        elif case['kind'] == 'tokens':
            fn = os.path.join(d, 'x.syx')
            with open(fn, 'w') as f:
                f.write(case['text'] + '\n')
            odd = any(len(t) % 2 for t in case['text'].split())
            try:
                got = mido.read_syx_file(fn)
                if odd:
                    acc.violation('tokens/accepted-not-two-digit-hex',
                                  f'read as {got!r}')
            except ValueError:
                if not odd:
                    acc.violation('tokens/rejected-valid', 'ValueError')
        else:
            return worker(('misc',)).viol and [
                (k, v[0][1]) for k, v in worker(('misc',)).viol.items()]
    finally:
        shutil.rmtree(d, ignore_errors=True)
    return [(k, v[0][1]) for k, v in acc.viol.items()]


def replay(path):
    from ..replay import generic_replay
    return generic_replay(PROP, path, check_case)
