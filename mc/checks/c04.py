"""C04 - the parser is total and sound on arbitrary byte streams.

(a) E2: state closure of the real Parser/Tokenizer: from every reachable
    canonical state every one of the 256 byte values is fed (payload/partial
    message length bounded by L for *expansion* only).
(b) E1: every string of length <= N over a 15-symbol byte-class alphabet
    through parse_all, Parser.feed and iteration, with the statement's
    whole-stream oracle.
"""
import array
import itertools

from .. import common
from ..engine_bfs import Search, canon
from ..engine_enum import Acc, run_shards
from ..evidence import Report
from ..ref import midi as ref
from .parser_common import (ALPHA15, INVALID_ITEMS, hexs, long_streams,
                            reject_probe, stream_oracle)

PROP = 'C04'


# ---------------------------------------------------------------- (a) closure
class Sys:
    def __init__(self, mido):
        self.parser = mido.Parser()
        self.out = []          # everything yielded so far (observer)
        self.fed = []


def make_search(mido, L, reps):
    def build(hist):
        s = Sys(mido)
        for b in hist:
            if isinstance(b, tuple):
                s.parser.feed(list(b[1]) if b[2] == 'list' else bytes(b[1]))
                s.fed.extend(b[1])
            else:
                s.parser.feed_byte(b)
                s.fed.append(b)
            s.out.extend(s.parser)
        return s

    LOOKAHEAD = (0x04, 0x7F, 0xF7, 0xF8, 0x90)
    CHUNKS = ((0x80, 2, 3), (0xC1, 5), (0xF0, 1, 0xF7), (0xF8,), (0xF2, 1, 2),
              (0x93, 4), (5, 6), (0xF7, 0x94, 7, 8))

    def ops(s, hist):
        # every single byte, and whole chunks passed to feed() in one call
        return list(range(256)) + [('feed', c, f) for c in CHUNKS
                                   for f in ('list', 'bytes')]

    def apply(s, b):
        if isinstance(b, tuple):
            chunk = b[1]
            try:
                s.parser.feed(list(chunk) if b[2] == 'list' else bytes(chunk))
                got = list(s.parser)
            except Exception as e:
                s.fed.extend(chunk)
                s.raised = True
                return ('raised', e)
            s.fed.extend(chunk)
            s.out.extend(got)
            return ('ok', got)
        try:
            s.parser.feed_byte(b)
            got = list(s.parser)
        except Exception as e:
            s.fed.append(b)
            s.raised = True
            return ('raised', e)
        s.fed.append(b)
        s.out.extend(got)
        return ('ok', got)

    def flat(hist):
        out = []
        for h in hist:
            out.extend(h[1]) if isinstance(h, tuple) else out.append(h)
        return out

    def check(s, hist, b, obs, violation):
        if isinstance(b, tuple):
            case = {'kind': 'chunked', 'first': flat(hist), 'chunk': list(b[1]),
                    'form': b[2],
                    'history': [list(h[1]) if isinstance(h, tuple) else h
                                for h in hist] + [list(b[1])]}
            if obs[0] == 'raised':
                violation(f'closure/raised-chunk/{type(obs[1]).__name__}',
                          f'feed_byte x {hexs(flat(hist))} then '
                          f'feed({hexs(b[1])}) raised {obs[1]!r}', case)
                return
            r = stream_oracle(mido, s.fed, s.out)
            if r is not None:
                violation('closure/chunk-' + r[0],
                          f'feed_byte x {hexs(flat(hist))} then '
                          f'feed({hexs(b[1])}) -> {s.out!r}: {r[1]}', case)
                return
            # One-byte lookahead with the TRUE history (the state reached by a
            # chunk feed is not merged with others before this is checked): a
            # stale partial message that survived the chunk shows up here.
            base_fed, base_out = list(s.fed), list(s.out)
            for nb in LOOKAHEAD:
                try:
                    s2 = build(hist + (b,))
                    s2.parser.feed_byte(nb)
                    s2.out.extend(s2.parser)
                except Exception as e:
                    violation(f'closure/raised-after-chunk/{type(e).__name__}',
                              f'{hexs(base_fed)} then {nb:02X} raised {e!r}',
                              dict(case, then=nb))
                    continue
                s2.fed.append(nb)
                r = stream_oracle(mido, s2.fed, s2.out)
                if r is not None:
                    violation('closure/after-chunk-' + r[0],
                              f'feed_byte x {hexs(flat(hist))}, '
                              f'feed({hexs(b[1])}), feed_byte({nb:02X}) -> '
                              f'{s2.out!r}: {r[1]}', dict(case, then=nb))
            return
        case = {'kind': 'stream', 'bytes': flat(hist) + [b],
                'history': [list(h[1]) if isinstance(h, tuple) else h
                            for h in hist] + [b]}
        if obs[0] == 'raised':
            violation(f'closure/raised/{type(obs[1]).__name__}',
                      f'feeding {hexs(s.fed)} raised {obs[1]!r}', case)
            return
        got = obs[1]
        # local clauses
        rts = [m for m in got if getattr(m, 'type', None) in ref.REALTIME]
        if b in ref.REALTIME_STATUS:
            if len(rts) != 1 or rts[0].type != ref.REALTIME_STATUS[b]:
                violation('closure/realtime-step',
                          f'byte {b:02X} after {hexs(hist)} yielded {got!r}',
                          case)
        elif rts:
            violation('closure/realtime-invented',
                      f'byte {b:02X} after {hexs(hist)} yielded {got!r}', case)
        # whole-stream clauses on the representative history
        r = stream_oracle(mido, s.fed, s.out)
        if r is not None:
            violation('closure/' + r[0],
                      f'stream {hexs(s.fed)} -> {s.out!r}: {r[1]}', case)
        if s.parser.pending() != 0:
            violation('closure/not-drained',
                      f'pending()={s.parser.pending()} after iteration', case)

    def key(s):
        return canon(s.parser)

    def data_run(hist):
        n = 0
        for b in reversed(hist):
            if b < 0x80:
                n += 1
            elif b >= 0xF8:
                continue        # real-time bytes do not end a payload
            else:
                break
        return n

    def expand(s, hist, b):
        if getattr(s, 'raised', False):
            return False    # reported; a parser that raised is not explored on
        if isinstance(b, tuple):
            return False    # chunk feeds: checked with a one-byte lookahead
        if b >= 0x80:
            return True
        return b in reps and data_run(tuple(flat(hist)) + (b,)) <= L

    return Search(build, ops, apply, check, key, expand=expand,
                  max_states=8000)


# ---------------------------------------------------------------- (b) strings
def check_string(mido, data, acc):
    forms = (
        ('parse_all', lambda: mido.parse_all(list(data))),
        ('Parser.feed+iter', lambda: _feed_iter(mido, data)),
        ('Parser(bytes)+get_message', lambda: _ctor_get(mido, data)),
    ) + EXTRA_FORMS[(len(data) + sum(data)) % len(EXTRA_FORMS)](mido, data)
    first = None
    for name, fn in forms:
        acc.evals += 1
        try:
            msgs = fn()
        except Exception as e:
            acc.violation(f'strings/raised/{name}/{type(e).__name__}',
                          f'{name} of {hexs(data)} raised {e!r}',
                          {'kind': 'stream', 'bytes': list(data)})
            continue
        r = stream_oracle(mido, data, msgs)
        if r is not None:
            acc.violation(f'strings/{r[0]}/{name}',
                          f'{name} of {hexs(data)} -> {msgs!r}: {r[1]}',
                          {'kind': 'stream', 'bytes': list(data)})
        if msgs:
            acc.count('strings_yielding_messages')
    if any(b >= 0x80 for b in data):
        acc.nontrivial += 1


def _feed_bytewise(mido, data):
    p = mido.Parser()
    for b in data:
        p.feed_byte(b)
    out = []
    while p.pending():
        out.append(p.get_message())
    return out


def _parse_first(mido, data):
    # parse(): the first message or None; then the rest through a parser
    # that was handed a generator
    first = mido.parse(list(data))
    rest = mido.parse_all(b for b in data)
    if (first is None) != (not rest) or (rest and vars(first) != vars(rest[0])):
        raise AssertionError(f'parse() gave {first!r}, parse_all()[0] differs')
    return rest


def _tokenizer(mido, data):
    from mido.tokenizer import Tokenizer
    toks = list(Tokenizer(memoryview(bytes(data))))
    return [mido.Message.from_bytes(t) for t in toks]


EXTRA_FORMS = (
    lambda mido, data: (('parse_all(tuple)',
                         lambda: mido.parse_all(tuple(data))),),
    lambda mido, data: (('Parser.feed(memoryview)+iter', lambda: list(
        _fed(mido.Parser(), memoryview(bytes(data))))),),
    lambda mido, data: (('feed_byte+pending+get_message',
                         lambda: _feed_bytewise(mido, data)),),
    lambda mido, data: (('parse()+parse_all(generator)',
                         lambda: _parse_first(mido, data)),),
    lambda mido, data: (('Tokenizer(memoryview)+from_bytes',
                         lambda: _tokenizer(mido, data)),),
    lambda mido, data: (('Parser(array)+iter', lambda: list(
        mido.Parser(array.array('B', data)))),),
)


def _fed(p, data):
    p.feed(data)
    return p


def _feed_iter(mido, data):
    p = mido.Parser()
    p.feed(bytes(data))
    return [m for m in p]


def _ctor_get(mido, data):
    p = mido.Parser(bytearray(data))
    out = []
    while True:
        m = p.get_message()
        if m is None:
            break
        out.append(m)
    return out


def worker(shard):
    mido = common.import_mido()
    acc = Acc()
    prefix, n = shard
    if prefix == 'long':
        for data, label in long_streams(mido):
            check_string(mido, tuple(data), acc)
        return acc
    if prefix == 'reject':
        # after a rejected element the parser stays total and sound
        for k in range(0, 4):
            for data in itertools.product(ALPHA15, repeat=k):
                for i in range(k + 1):
                    for bad in INVALID_ITEMS:
                        acc.evals += 1
                        reject_probe(mido, (), data[:i], data[i:], bad,
                                     acc.violation, 'strings/reject')
        return acc
    if prefix is None:          # the strings of length 0 and 1
        check_string(mido, (), acc)
        for a in ALPHA15:
            check_string(mido, (a,), acc)
        return acc
    for k in range(0, n - 1):
        for rest in itertools.product(ALPHA15, repeat=k):
            check_string(mido, prefix + rest, acc)
    acc.sample({'string': hexs(prefix + rest)}, cap=1)
    return acc


def run():
    mido = common.import_mido()
    thorough = common.tier() == 'thorough'
    seed = common.seed()
    rep = Report(PROP, 'model_checking',
                 'explicit-state closure of the real Parser (all 256 bytes '
                 'from every reachable state) + exhaustive strings over a '
                 'byte-class alphabet')
    L = 5 if thorough else 3
    N = 6 if thorough else 5
    extra = 1 + (seed * 53) % 126
    reps = (0x00, 0x7F, extra)
    srch = make_search(mido, L, reps)
    srch.run(rep.violation, procs=common.nproc())
    srch.fill(rep)
    rep.coverage['closure_payload_bound_L'] = L
    rep.coverage['closure_data_representatives'] = list(reps)
    rep.require(srch.states > 100, f'only {srch.states} parser states')
    rep.require(not srch.capped, 'closure search hit a cap')

    shards = [(None, N), ('reject', N), ('long', N)] + [((a, b), N) for a in ALPHA15
                                            for b in ALPHA15]
    run_shards(worker, shards, rep)
    rep.coverage['traces_validated_against_impl'] += rep.coverage['evaluations']
    rep.coverage['exhaustive'] = True
    rep.coverage['string_length_bound_N'] = N
    rep.coverage['rule'] = (
        f'(a) BFS to a fixed point over the real Parser: every reachable '
        f'canonical state (complete vars() of Parser and Tokenizer) x every '
        f'byte 0..255; data bytes are expanded only for representatives '
        f'{list(reps)} and payload/partial length <= {L}. (b) every string of '
        f'length <= {N} over {[hex(b) for b in ALPHA15]} through 3 call '
        f'forms. Oracle = the statement: no exception, every message valid, '
        f'defined real-time bytes <-> real-time messages one-to-one in order, '
        f'other message bytes a subsequence of the input. Non-trivial string '
        f'= contains a status byte')
    rep.assumptions += [
        'data byte values other than the representatives behave uniformly '
        '(all 256 values are still fed from every expanded state)',
        f'sysex payloads longer than {L} and strings longer than {N} are '
        'covered only through the state-closure argument (equal canonical '
        'states have equal futures)',
        'the property\'s "long random streams" clause is replaced by the '
        'closure; no sampling is used',
    ]
    rep.require(rep.coverage.get('strings_yielding_messages', 0) > 1000,
                'no strings yielded messages')
    return rep


def check_case(case):
    mido = common.import_mido()
    acc = Acc()
    if case['kind'] == 'reject':
        out = []
        reject_probe(mido, case['A'], case['B'], case['C'], eval(case['bad']),
                     lambda k, w, c=None: out.append((k, w)), 'strings/reject')
        return out
    if case['kind'] == 'chunked':
        p = mido.Parser()
        out = []
        try:
            for b in case['first']:
                p.feed_byte(b)
                out.extend(p)
            p.feed(list(case['chunk']) if case['form'] == 'list'
                   else bytes(case['chunk']))
            out.extend(p)
            fed = case['first'] + case['chunk']
            if 'then' in case:
                p.feed_byte(case['then'])
                out.extend(p)
                fed = fed + [case['then']]
            r = stream_oracle(mido, fed, out)
            if r:
                acc.violation('closure/chunk-' + r[0], r[1])
        except Exception as e:
            acc.violation(f'closure/raised-chunk/{type(e).__name__}', repr(e))
        return [(k, v[0][1]) for k, v in acc.viol.items()]
    check_string(mido, tuple(case['bytes']), acc)
    # closure-style run: byte by byte
    p = mido.Parser()
    out = []
    try:
        for b in case['bytes']:
            p.feed_byte(b)
            out.extend(p)
        r = stream_oracle(mido, case['bytes'], out)
        if r:
            acc.violation('closure/' + r[0], r[1])
    except Exception as e:
        acc.violation(f'closure/raised/{type(e).__name__}', repr(e))
    return [(k, v[0][1]) for k, v in acc.viol.items()]


def replay(path):
    from ..replay import generic_replay
    return generic_replay(PROP, path, check_case)
