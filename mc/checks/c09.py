"""C09 - the meta message codec accepts and preserves every documented value
(E1: complete finite domains, boundary payload lengths, out-of-domain values).
"""
import io
import itertools
import struct

from .. import common
from ..engine_enum import Acc, run_shards
from ..evidence import Report
from ..ref import meta as rm

PROP = 'C09'
LENGTHS = (0, 1, 2, 127, 128, 129, 255, 256, 16383, 16384, 16385)
LENGTHS_THOROUGH = (999998,)      # MetaMessage bytes incl. header <= 1e6
TIMES = (0, 3, 1.5)


def track_file(event_bytes):
    body = bytes([0] + list(event_bytes) + [0, 0xFF, 0x2F, 0])
    return (b'MThd' + struct.pack('>LHHH', 6, 1, 1, 480)
            + b'MTrk' + struct.pack('>L', len(body)) + body)


def vnorm(d):
    out = {}
    for k, v in d.items():
        out[k] = v
    return out


def check_valid(mido, type_, attrs, acc, t=0, via_file=True, input_attrs=None):
    """attrs: reference (normalised) attribute values; input_attrs: what is
    passed to the constructor (defaults to attrs)."""
    MM = mido.MetaMessage
    given = attrs if input_attrs is None else input_attrs
    case = {'kind': 'valid', 'type': type_, 'attrs': _short(given), 'time': t}
    desc = f'MetaMessage({type_!r}, {_short(given)})'
    acc.evals += 1
    try:
        m = MM(type_, time=t, **given)
    except Exception as e:
        acc.violation(f'rejected-documented/{type_}/{_akey(given)}/'
                      f'{type(e).__name__}',
                      f'{desc} raised {e!r}', case)
        return
    exp = rm.encode(type_, attrs)
    try:
        b = m.bytes()
    except Exception as e:
        acc.violation(f'bytes-raises/{type_}/{_akey(given)}/{type(e).__name__}',
                      f'{desc}.bytes() raised {e!r}', case)
        return
    if list(b) != exp or any(type(x) is not int or not 0 <= x <= 255
                             for x in b):
        acc.violation(f'bytes/{type_}/{_akey(given)}',
                      f'{desc}.bytes() = {_short(list(b))}, reference '
                      f'{_short(exp)}', case)
        return
    if type_ == 'smpte_offset' and attrs.get('hours', 0) >= 32:
        # one finding, whatever way the round trip fails
        bad = None
        try:
            m2 = MM.from_bytes(list(b))
            if vars(m2) != dict(vars(m), time=0):
                bad = f'from_bytes gave {_short(vars(m2))}'
            m3 = mido.MidiFile(file=io.BytesIO(track_file(b))).tracks[0][0]
            if vars(m3) != dict(vars(m), time=0):
                bad = f'reading it from a track gave {_short(vars(m3))}'
        except KeyError as e:
            bad = f'decoding raised KeyError({e})'
        except Exception as e:
            acc.violation(f'smpte_offset/hours>=32/{type(e).__name__}',
                          f'{desc}: {e!r}', case)
            return
        if bad:
            acc.violation('smpte_offset/hours>=32/does-not-round-trip',
                          f'{desc} is accepted (hours documented 0..255) but '
                          f'{bad}', case)
        acc.nontrivial += 1
        return
    # what bytes() returns is the caller's: scribble on it, encode again
    try:
        b.append(0x99)
        b[0] = 0
        if list(m.bytes()) != exp:
            acc.violation(f'bytes-aliased/{type_}',
                          f'after changing the list returned by bytes(), '
                          f'{desc}.bytes() = {_short(list(m.bytes()))}', case)
            return
    except (AttributeError, TypeError):
        pass
    b = list(exp)
    # decode
    try:
        m2 = MM.from_bytes(list(b))
    except Exception as e:
        acc.violation(f'from_bytes-raises/{type_}/len={_lenclass(exp)}/'
                      f'{type(e).__name__}',
                      f'from_bytes(bytes of {desc}) raised {e!r}', case)
        m2 = None
    if m2 is not None:
        want = dict(vars(m))
        want['time'] = 0
        if vars(m2) != want or type(m2) is not type(m):
            acc.violation(f'from_bytes-differs/{type_}/{_akey(given)}/'
                          f'len={_lenclass(exp)}',
                          f'from_bytes(bytes of {desc}) = {_short(vars(m2))}, '
                          f'original {_short(want)}', case)
    if len(exp) < 40000:
        for form in (bytes, bytearray, tuple):
            try:
                mf_ = MM.from_bytes(form(exp))
                if vars(mf_) != dict(vars(m), time=0):
                    acc.violation(f'from_bytes-differs/{type_}/{form.__name__}',
                                  f'from_bytes({form.__name__} of {desc}) = '
                                  f'{_short(vars(mf_))}', case)
            except Exception as e:
                acc.violation(f'from_bytes-raises/{type_}/{form.__name__}/'
                              f'len={"<128" if len(exp) < 131 else ">=128"}/'
                              f'{type(e).__name__}',
                              f'from_bytes({form.__name__} of the bytes of '
                              f'{desc}) raised {e!r}', case)
    if m2 is not None and len(exp) < 3000:
        # the decoded message is the caller's: change it, decode again
        try:
            m2.time = 777
            for k in list(vars(m2)):
                if k not in ('type', 'time') and isinstance(
                        vars(m2)[k], int) and not isinstance(vars(m2)[k], bool):
                    try:
                        setattr(m2, k, 0 if vars(m2)[k] else 1)
                    except (ValueError, TypeError):
                        pass
                    break
            m2b = MM.from_bytes(list(b))
            if vars(m2b) != dict(vars(m), time=0) or m2b is m2:
                acc.violation(f'from_bytes-aliased/{type_}',
                              f'after changing a message returned by '
                              f'from_bytes, decoding the bytes of {desc} again '
                              f'gave {_short(vars(m2b))}', case)
        except Exception as e:
            acc.violation(f'from_bytes-aliased-raises/{type_}/{type(e).__name__}',
                          f'{e!r}', case)
    if via_file:
        try:
            mf = mido.MidiFile(file=io.BytesIO(track_file(b)))
            m3 = mf.tracks[0][0]
            want = dict(vars(m))
            want['time'] = 0
            if vars(m3) != want or len(mf.tracks[0]) != 2:
                acc.violation(f'file-read-differs/{type_}/{_akey(given)}',
                              f'reading {desc} from a track gave '
                              f'{_short(vars(m3))}', case)
        except Exception as e:
            acc.violation(f'file-read-raises/{type_}/{type(e).__name__}',
                          f'reading {desc} from a track raised {e!r}', case)
    # assignment path
    try:
        m0 = MM(type_)
        for k, v in given.items():
            setattr(m0, k, v)
        m0.time = t
        if vars(m0) != vars(m):
            acc.violation(f'assign-differs/{type_}',
                          f'assigning {_short(given)} gave {_short(vars(m0))}',
                          case)
    except Exception as e:
        acc.violation(f'assign-rejected-documented/{type_}/{_akey(given)}/'
                      f'{type(e).__name__}',
                      f'assigning {_short(given)} on MetaMessage({type_!r}) '
                      f'raised {e!r}', case)
    acc.nontrivial += 1


def check_invalid(mido, type_, name, value, acc):
    MM = mido.MetaMessage
    acc.evals += 1
    acc.nontrivial += 1
    case = {'kind': 'invalid', 'type': type_, 'name': name,
            'value': repr(value)}
    vk = f'{name}:{_vclass(value)}'
    try:
        m = MM(type_, **{name: value})
    except (ValueError, TypeError):
        pass
    except Exception as e:
        acc.violation(f'invalid-wrong-exception/{type_}/{vk}/{type(e).__name__}',
                      f'MetaMessage({type_!r}, {name}={value!r}) raised {e!r}',
                      case)
    else:
        acc.violation(f'accepted-undocumented/{type_}/{vk}',
                      f'MetaMessage({type_!r}, {name}={_short(value)!r}) was '
                      f'accepted: {_short(vars(m))}', case)
    m0 = MM(type_)
    before = dict(vars(m0))
    try:
        setattr(m0, name, value)
    except (ValueError, TypeError, AttributeError):
        if vars(m0) != before:
            acc.violation(f'rejected-but-changed/{type_}/{vk}',
                          f'assignment {name}={value!r} raised but changed '
                          f'the message', case)
    except Exception as e:
        acc.violation(f'invalid-wrong-exception/{type_}/{vk}/{type(e).__name__}',
                      f'assignment {name}={value!r} raised {e!r}', case)
    else:
        acc.violation(f'accepted-undocumented/{type_}/{vk}',
                      f'assignment {name}={_short(value)!r} on '
                      f'MetaMessage({type_!r}) was accepted', case)


def _short(x):
    r = repr(x)
    return r if len(r) < 200 else r[:90] + f'...({len(r)} chars)...' + r[-60:]


def _lenclass(enc):
    n = len(enc)
    return n if n < 300 else f'{n}'


def _akey(attrs):
    parts = []
    for k, v in sorted(attrs.items()):
        if isinstance(v, (str, bytes, tuple, list)):
            parts.append(f'{k}:{type(v).__name__}[{len(v)}]')
        elif k == 'hours':
            parts.append(f'hours{">=32" if v >= 32 else "<32"}')
        elif k == 'denominator':
            parts.append('denominator')
        else:
            parts.append(k)
    return ','.join(parts)


def _vclass(v):
    if isinstance(v, bool):
        return 'bool'
    if isinstance(v, int):
        return 'int'
    return type(v).__name__


def text_of(n, cls):
    if cls == 'ascii':
        return ''.join(chr(0x61 + (i % 26)) for i in range(n))
    if cls == 'high':
        return ''.join(chr(0xE0 + (i % 16)) for i in range(n))
    if cls == 'nul':
        return '\x00' * n
    return ''.join(chr((i * 37) & 0xFF) for i in range(n))


WRONG_TYPES = (None, 1.5, '1', [1], (1,), b'\x01', 1 + 0j)


def worker(shard):
    mido = common.import_mido()
    acc = Acc()
    kind = shard[0]
    if kind == 'seqnum':
        for n in range(shard[1], shard[2]):
            check_valid(mido, 'sequence_number', {'number': n}, acc,
                        t=TIMES[n % 3], via_file=(n % 64 == 0 or n > 65500))
        acc.sample({'type': 'sequence_number', 'number': shard[1]}, cap=1)
    elif kind == 'bytes255':
        for n in range(256):
            check_valid(mido, 'channel_prefix', {'channel': n}, acc)
            check_valid(mido, 'midi_port', {'port': n}, acc)
        for key in rm.KEYS:
            check_valid(mido, 'key_signature', {'key': key}, acc)
        check_valid(mido, 'end_of_track', {}, acc)
        for t in rm.TABLE:
            check_valid(mido, t, {}, acc)      # defaults
        # the variable-length-quantity helpers the codec is built on (if the
        # module still has them): correct, inverse, and not poisoned by a
        # caller changing what they return or pass in
        import mido.midifiles.meta as meta
        enc = getattr(meta, 'encode_variable_int', None)
        dec = getattr(meta, 'decode_variable_int', None)
        if enc is not None and dec is not None:
            for n in (0, 1, 127, 128, 129, 200, 255, 256, 16383, 16384, 16385,
                      2097151, 2097152, 0x0FFFFFFF):
                for rnd in range(2):
                    acc.evals += 1
                    v = enc(n)
                    if list(v) != rm.vlq(n):
                        acc.violation('vlq-helper/encode',
                                      f'encode_variable_int({n}) = {list(v)} '
                                      f'(round {rnd}), reference {rm.vlq(n)}',
                                      {'kind': 'vlq', 'n': n})
                        break
                    back = dec(v)        # may strip bits in place
                    if back != n:
                        acc.violation('vlq-helper/decode',
                                      f'decode_variable_int(encode({n})) = '
                                      f'{back}', {'kind': 'vlq', 'n': n})
                        break
                    try:
                        v.append(0x99)   # the result is the caller's
                    except AttributeError:
                        pass
                if n <= 20000:
                    check_valid(mido, 'text', {'text': 'q' * n}, acc,
                                via_file=True)
        acc.sample({'type': 'key_signature', 'key': 'F#m'}, cap=1)
    elif kind == 'tempo':
        vals = {0, 1, 255, 256, 65535, 65536, 500000, 16777214, 16777215}
        vals |= {v for k in range(1, 25) for v in (2 ** k - 1, 2 ** k, 2 ** k + 1)
                 if 0 <= v <= 16777215}
        vals |= {0xFF00, 0xFF0000, 0x00FF00, 0x7F7F7F, 0x808080, 0xFFFF00}
        vals |= set(range(shard[1], 16777216, 4096))
        for v in sorted(vals):
            check_valid(mido, 'set_tempo', {'tempo': v}, acc,
                        via_file=(v % 7 == 0))
        acc.sample({'type': 'set_tempo', 'tempo': shard[1]}, cap=1)
    elif kind == 'timesig':
        for e in range(shard[1], shard[2]):
            for num, clk, n32 in itertools.product((0, 1, 255), repeat=3):
                check_valid(mido, 'time_signature',
                            {'numerator': num, 'denominator': 2 ** e,
                             'clocks_per_click': clk,
                             'notated_32nd_notes_per_beat': n32}, acc,
                            via_file=(num == 1))
        acc.sample({'type': 'time_signature', 'denominator': f'2**{shard[1]}'},
                   cap=1)
    elif kind == 'smpte':
        for rate in rm.FRAME_RATES:
            for h, mi, s, f, sf in itertools.product(
                    (0, 1, 23, 24, 31, 32, 255), (0, 59), (0, 59), (0, 255),
                    (0, 99)):
                check_valid(mido, 'smpte_offset',
                            {'frame_rate': rate, 'hours': h, 'minutes': mi,
                             'seconds': s, 'frames': f, 'sub_frames': sf}, acc)
        acc.sample({'type': 'smpte_offset', 'frame_rate': 29.97, 'hours': 23},
                   cap=1)
    elif kind == 'text':
        type_, lengths = shard[1], shard[2]
        name = rm.attrs_of(type_)[0]
        for n in lengths:
            for cls in ('ascii', 'high', 'nul', 'mix'):
                if n > 20000 and cls != 'mix':
                    continue
                check_valid(mido, type_, {name: text_of(n, cls)}, acc,
                            via_file=(n < 200000))
        # text the charset in force cannot encode: refusing (ValueError) is
        # fine, anything returned must still be bytes that decode back
        for wide in ('\u20ac', 'a\u20ac', '\u0100', 'x' * 300 + '\u0101',
                     '\u4e2d' + 'y' * 130, '\xff\u0100\xff', '\U0001f3b5',
                     'abc\ud800'):
            acc.evals += 1
            acc.nontrivial += 1
            case = {'kind': 'wide', 'type': type_, 'text': ascii(wide)}
            try:
                m = mido.MetaMessage(type_, **{name: wide})
            except (ValueError, TypeError):
                continue
            try:
                b = m.bytes()
            except ValueError:
                continue
            except Exception as e:
                acc.violation(f'wide-text/raises/{type(e).__name__}',
                              f'MetaMessage({type_!r}, {name}={wide!a}).bytes() '
                              f'raised {e!r}', case)
                continue
            try:
                ok = (all(type(x) is int and 0 <= x <= 255 for x in b)
                      and vars(mido.MetaMessage.from_bytes(list(b))) == vars(m))
            except Exception as e:
                ok = False
            if not ok:
                acc.violation('wide-text/not-bytes-or-no-round-trip',
                              f'MetaMessage({type_!r}, {name}={wide!a}).bytes() '
                              f'= {_short(b)}', case)
        if type_ in ('text', 'lyrics'):
            # exactly at the reader's limit: a payload of 1 000 000 bytes is
            # read from a track; one byte more is refused by the reader
            for n, must_load in ((999999, True), (1000000, True)):
                acc.evals += 1
                acc.nontrivial += 1
                case = {'kind': 'limit', 'type': type_, 'len': n}
                try:
                    m = mido.MetaMessage(type_, **{name: 'y' * n})
                    b = m.bytes()
                    if list(b[:2]) != [0xFF, rm.TABLE[type_][0]] or \
                            list(b[2:2 + len(rm.vlq(n))]) != rm.vlq(n) or \
                            len(b) != 2 + len(rm.vlq(n)) + n:
                        acc.violation(f'limit/bytes/len={n}',
                                      f'{type_} with {n} characters: header '
                                      f'{list(b[:8])}', case)
                        continue
                    m3 = mido.MidiFile(
                        file=io.BytesIO(track_file(b))).tracks[0][0]
                    if vars(m3) != vars(m):
                        acc.violation(f'limit/file-differs/len={n}',
                                      f'{type_} with {n} characters read back '
                                      f'with {len(getattr(m3, name, ""))}', case)
                except Exception as e:
                    acc.violation(f'limit/raises/len={n}/{type(e).__name__}',
                                  f'{type_} with {n} characters (the reader\'s '
                                  f'limit is 1 000 000 bytes per message): '
                                  f'{e!r}', case)
        # the codec under another charset in force (meta_charset block):
        # payload is the text in that charset and decodes back
        from mido.midifiles.meta import meta_charset
        for cs in ('utf-8', 'utf-16', 'shift_jis', 'cp1252'):
            for text in ('a', 'caf\xe9', '\u65e5\u672c', '\u20ac' * 100):
                try:
                    want = list(text.encode(cs))
                except UnicodeError:
                    continue
                acc.evals += 1
                acc.nontrivial += 1
                case = {'kind': 'charset', 'type': type_, 'charset': cs,
                        'text': ascii(text)}
                try:
                    with meta_charset(cs):
                        m = mido.MetaMessage(type_, **{name: text})
                        b = list(m.bytes())
                        back = mido.MetaMessage.from_bytes(b)
                    exp = [0xFF, rm.TABLE[type_][0]] + rm.vlq(len(want)) + want
                    if b != exp or vars(back) != vars(m):
                        acc.violation(f'charset-in-force/{cs}',
                                      f'under meta_charset({cs!r}): {type_} '
                                      f'{text!a} encoded as {_short(b)}, '
                                      f'expected {_short(exp)}; decoded back '
                                      f'{back!r}', case)
                except Exception as e:
                    acc.violation(f'charset-in-force/{cs}/{type(e).__name__}',
                                  f'under meta_charset({cs!r}): {type_} '
                                  f'{text!a} raised {e!r}', case)
        acc.sample({'type': type_, 'text_lengths': list(lengths)}, cap=1)
    elif kind == 'data':
        lengths = shard[1]
        for n in lengths:
            payload = tuple((i * 11 + 250) & 0xFF for i in range(n))
            for form in (tuple, list, bytes, bytearray):
                check_valid(mido, 'sequencer_specific', {'data': payload}, acc,
                            input_attrs={'data': form(payload)},
                            via_file=(n < 200000))
            # unknown meta
            for tb in (0x60, 0x0A, 0x7E):
                acc.evals += 1
                acc.nontrivial += 1
                case = {'kind': 'unknown', 'type_byte': tb, 'len': n}
                try:
                    u = mido.UnknownMetaMessage(tb, data=list(payload), time=0)
                    b = u.bytes()
                    exp = rm.encode_unknown(tb, payload)
                    if list(b) != exp:
                        acc.violation(f'unknown-bytes/len={n}',
                                      f'UnknownMetaMessage({tb}, {n} bytes)'
                                      f'.bytes() wrong', case)
                        continue
                    u2 = mido.MetaMessage.from_bytes(list(b))
                    if vars(u2) != vars(u) or type(u2) is not type(u):
                        acc.violation(f'unknown-from_bytes-differs/len={n}',
                                      f'{_short(vars(u2))} vs {_short(vars(u))}',
                                      case)
                    if n < 200000:
                        mf = mido.MidiFile(file=io.BytesIO(track_file(b)))
                        u3 = mf.tracks[0][0]
                        if vars(u3) != vars(u) or type(u3) is not type(u):
                            acc.violation(f'unknown-file-differs/len={n}',
                                          f'{_short(vars(u3))}', case)
                except Exception as e:
                    acc.violation(f'unknown-raises/len={n}/{type(e).__name__}',
                                  f'unknown meta {tb:#x} with {n} bytes: {e!r}',
                                  case)
        acc.sample({'type': 'sequencer_specific/unknown',
                    'payload_lengths': list(lengths)}, cap=1)
    elif kind == 'invalid':
        for type_, (tb, attrs) in rm.TABLE.items():
            for name, k, lo, hi, _ in attrs:
                bad = list(WRONG_TYPES)
                if k == 'int':
                    bad = [lo - 1, hi + 1, -2 ** 70, 2 ** 70] + [
                        w for w in bad]
                elif k == 'str':
                    bad = [None, 1, 1.5, b'abc', ['a'], ('a',)]
                elif k == 'rate':
                    bad = [23, 0, 29, 31, 29.970001, '24', None, 24.5, -24]
                elif k == 'pow2':
                    bad = [0, -1, -2, 3, 6, 12, 2 ** 60 + 1, 2 ** 255 + 1,
                           2 ** 256, 2 ** 255 + 2 ** 254, 2 ** 53 + 1,
                           2 ** 100 - 1, 2 ** 64 + 2 ** 10, 1.5, '4', None,
                           4.0, 2 ** 200 + 1]
                elif k == 'key':
                    bad = ['H', 'c', 'Cbm', 'E#', 'Fb', '', 'C ', 0, None,
                           ('C',), 'A#', 'D#', 'G#', 'Dbm', 'Gbm']
                elif k == 'bytes':
                    bad = [5, None, 1.5, (256,), (-1,), [1.5], ('a',),
                           [None]]
                for v in bad:
                    check_invalid(mido, type_, name, v, acc)
            # unknown attribute / unknown type
            check_invalid(mido, type_, 'nosuch', 1, acc)
            check_invalid(mido, type_, 'time', 'x', acc)
        acc.sample({'invalid': 'bounds +-1, non powers of two, unknown keys, '
                    'frame rate 23, wrong types'}, cap=1)
    return acc


def run():
    common.import_mido()
    thorough = common.tier() == 'thorough'
    rep = Report(PROP, 'exploration',
                 'exhaustive enumeration of the finite meta attribute domains '
                 'and boundary payload lengths against a reference meta codec')
    shards = [('bytes255',), ('smpte',), ('invalid',)]
    shards += [('seqnum', a, a + 4096) for a in range(0, 65536, 4096)]
    shards += [('tempo', s) for s in range(0, 4096, 512)] if thorough else \
        [('tempo', common.seed() % 4096)]
    shards += [('timesig', e, e + 16) for e in range(0, 256, 16)]
    lengths = LENGTHS + (LENGTHS_THOROUGH if thorough else ())
    for t in rm.TEXT_TYPES:
        shards.append(('text', t, lengths))
    shards.append(('data', lengths))
    run_shards(worker, shards, rep)
    rep.coverage['exhaustive'] = True
    rep.coverage['rule'] = (
        'complete domains: sequence_number 0..65535, channel_prefix and '
        'midi_port 0..255, all 30 keys, time_signature denominators 2**e for '
        'e=0..255 x {0,1,255}^3, smpte 4 rates x hours {0,1,23,24,31,32,255} x '
        'limits of the other fields; set_tempo limits + a 4096-stride sweep; '
        f'9 text types x lengths {list(lengths)} x 4 content classes; '
        'sequencer_specific (tuple/list/bytes/bytearray) and unknown meta at '
        'the same lengths. Each: construct, bytes() == reference FF type VLQ '
        'payload, from_bytes round trip, read from a one-track file, '
        'assignment path. Out-of-domain: bounds +-1, non powers of two, '
        'unknown keys/rates/attributes, wrong types must raise '
        'ValueError/TypeError at construction and assignment. Every case is '
        'a distinct (type, attributes) pair and exercises the codec')
    rep.assumptions += [
        'text limited to latin1-encodable strings (the charset in force '
        'outside a file operation); C17 covers other charsets',
        'set_tempo is swept with stride 4096, not completely',
    ]
    return rep


def check_case(case):
    mido = common.import_mido()
    acc = Acc()
    if case['kind'] == 'invalid':
        env = {'inf': float('inf')}
        check_invalid(mido, case['type'], case['name'],
                      eval(case['value'], env), acc)
    elif case['kind'] == 'valid':
        try:
            attrs = eval(case['attrs'])
        except Exception:
            return [('unreplayable', 'attribute values too long to record')]
        ref_attrs = dict(attrs)
        if 'data' in ref_attrs:
            ref_attrs['data'] = tuple(ref_attrs['data'])
        check_valid(mido, case['type'], ref_attrs, acc, t=case['time'],
                    input_attrs=attrs)
    else:
        # probes that live inside a shard: re-run the shard
        for sh in ([('text', case['type'], (0, 1))] if case.get('type')
                   in rm.TEXT_TYPES else [('bytes255',), ('invalid',)]):
            acc = worker(sh)
    return [(k, v[0][1]) for k, v in acc.viol.items()]


def replay(path):
    from ..replay import generic_replay
    return generic_replay(PROP, path, check_case)
