"""C11 - port life cycle: idempotent close, drain then stop, blocking calls
terminate.

E2 + E3: BFS over operation histories on every port kind (device doubles,
EchoPort, IOPort wrapper, MultiPort); inside blocking calls every call of the
sleep seam is an environment choice (nothing / a message arrives / the device
closes itself) taken from a per-operation script, with a horizon.
"""
import itertools

from .. import common
from ..engine_bfs import Search, canon
from ..engine_enum import Acc, run_shards
from ..evidence import Report
from .ports_common import (Device, Endless, Horizon, install_seams,
                           make_doubles, take)

PROP = 'C11'
H = 4        # idle sleeps tolerated inside one blocking call before cutting

KINDS = ('multi-of-ioport', 'multi-of-direct', 'multi-from-iterator',
         'multi-yield-ports',
         'in-direct', 'in-parser', 'in-selfclosing', 'in-selfclosing-direct',
         'out', 'out-autoreset', 'io-autoreset', 'io-selfclosing', 'echo',
         'ioport', 'ioport-selfclosing', 'multi', 'multi-selfclosing')


class Sys:
    pass


def reset_sequence():
    out = []
    for ch in range(16):
        for cc in (123, 121):
            out.append((ch, cc))
    return out


def build_port(mido, kind):
    D = make_doubles(mido)
    s = Sys()
    s.kind = kind
    s.devs = []
    s.owned = []          # devices the port must release on close
    s.selfclosing = set()
    s.can_in = s.can_out = True
    s.autoreset_dev = None

    def dev(name):
        d = Device(name)
        s.devs.append(d)
        return d

    if kind == 'in-direct':
        s.port = D.InDouble('p', dev=dev('a'))
        s.can_out = False
        s.owned = [0]
    elif kind == 'in-parser':
        s.port = D.InParserDouble('p', dev=dev('a'))
        s.can_out = False
        s.owned = [0]
    elif kind in ('in-selfclosing', 'in-selfclosing-direct'):
        cls = D.InSelfClosing if kind == 'in-selfclosing' else \
            D.InSelfClosingDirect
        s.port = cls('p', dev=dev('a'))
        s.can_out = False
        s.owned = [0]
        s.selfclosing = {0}
    elif kind == 'out':
        s.port = D.OutDouble('p', dev=dev('a'))
        s.can_in = False
        s.owned = [0]
    elif kind == 'out-autoreset':
        s.port = D.OutDouble('p', autoreset=True, dev=dev('a'))
        s.can_in = False
        s.owned = [0]
        s.autoreset_dev = 0
    elif kind == 'io-autoreset':
        s.port = D.IODouble('p', autoreset=True, dev=dev('a'))
        s.owned = [0]
        s.autoreset_dev = 0
    elif kind == 'io-selfclosing':
        s.port = D.IOSelfClosing('p', dev=dev('a'))
        s.owned = [0]
        s.selfclosing = {0}
    elif kind == 'echo':
        s.port = mido.ports.EchoPort('echo')
        s.devs.append(Device('echo'))       # bookkeeping only
    elif kind in ('ioport', 'ioport-selfclosing'):
        icls = D.InParserDouble if kind == 'ioport' else D.InSelfClosing
        s.inp = icls('i', dev=dev('a'))
        s.outp = D.OutDouble('o', autoreset=(kind == 'ioport'), dev=dev('b'))
        s.port = mido.ports.IOPort(s.inp, s.outp)
        s.owned = [0, 1]
        s.in_srcs = [0]
        s.out_devs = [1]
        if kind == 'ioport':
            s.autoreset_dev = 1
        else:
            s.selfclosing = {0}
    elif kind == 'multi-of-ioport':
        # ports wrapping ports: a MultiPort over an IOPort wrapper and a plain
        # device port
        s.inp = D.InParserDouble('i', dev=dev('a'))
        s.outp = D.OutDouble('o', dev=dev('b'))
        wrapper = mido.ports.IOPort(s.inp, s.outp)
        other = D.IODouble('c', dev=dev('c'))
        s.children = [wrapper, other]
        s.child_devs = {0: [0, 1], 1: [2]}
        s.port = mido.ports.MultiPort(s.children)
        s.in_srcs = [0, 2]
        s.out_devs = [1, 2]
    elif kind == 'multi-of-direct':
        s.children = [D.InDouble('a', dev=dev('a')),
                      D.InDouble('b', dev=dev('b'))]
        s.port = mido.ports.MultiPort(s.children)
        s.can_out = False
    elif kind in ('multi', 'multi-selfclosing', 'multi-from-iterator',
                  'multi-yield-ports'):
        acls = D.IOSelfClosing if kind == 'multi-selfclosing' else D.IODouble
        s.children = [acls('a', dev=dev('a')), D.IODouble('b', dev=dev('b'))]
        if kind == 'multi-from-iterator':
            # any iterable of ports is accepted, a one-shot one too
            s.port = mido.ports.MultiPort(p for p in s.children)
        elif kind == 'multi-yield-ports':
            s.port = mido.ports.MultiPort(s.children, yield_ports=True)
        else:
            s.port = mido.ports.MultiPort(s.children)
        if kind == 'multi-selfclosing':
            s.selfclosing = {0}
    if not hasattr(s, 'in_srcs'):
        s.in_srcs = list(range(len(s.devs))) if s.can_in else []
    if not hasattr(s, 'out_devs'):
        s.out_devs = list(range(len(s.devs))) if s.can_out else []
    # model
    s.counter = 0
    s.status = {}         # msg id -> 'device' | 'taken' | 'returned' | 'lost'
    s.order = {i: [] for i in range(len(s.devs))}   # per source delivery order
    s.sent_expected = {i: 0 for i in range(len(s.devs))}
    s.closed_model = False
    s.iter = None
    s.resets_done = False
    return s


def msg_id(m):
    if isinstance(m, tuple) and len(m) == 2:
        # MultiPort(yield_ports=True) hands out (port, message); the port
        # must be the child the message arrived on (children 'a', 'b')
        port, m = m
        if getattr(port, 'name', None) != 'ab'[m.velocity - 1]:
            return ('wrong-port', getattr(port, 'name', None), m.note)
    return (m.velocity - 1, m.note)


def make_search(mido, kind, depth):
    tshim, rshim = install_seams(mido)
    M = mido.Message

    def build(hist):
        s = build_port(mido, kind)
        for op in hist:
            apply(s, op)
        return s

    def sync_model(s):
        """Pull what the doubles observed into the model."""
        for i, d in enumerate(s.devs):
            for m in d.taken:
                if s.status.get(msg_id(m)) == 'device':
                    s.status[msg_id(m)] = 'taken'
        if kind != 'echo' and s.port.closed and not s.closed_model:
            s.closed_model = True
        if kind.startswith('multi'):
            for i, ch in enumerate(s.children):
                if ch.closed:
                    devs = getattr(s, 'child_devs', {}).get(i, [i])
                    for di in devs:
                        for mid in s.order.get(di, ()):
                            if s.status[mid] == 'device':
                                s.status[mid] = 'lost'
        if s.closed_model or (kind != 'echo' and s.port.closed):
            for mid, st in s.status.items():
                if st == 'device':
                    s.status[mid] = 'lost'
        if kind.startswith('ioport') and s.inp.closed:
            for mid, st in s.status.items():
                if st == 'device':
                    s.status[mid] = 'lost'

    def available(s):
        """Message ids that can be handed out now, as per-source FIFO heads
        (taken-in messages always; in-device messages while the port is
        open)."""
        heads = []
        allm = []
        for i in s.order:
            pend = [mid for mid in s.order[i]
                    if s.status[mid] in ('device', 'taken')]
            if pend:
                heads.append(pend[0])
            allm += pend
        return heads, allm

    def deliver(s, src):
        s.counter += 1
        m = M('note_on', note=s.counter % 128, velocity=src + 1)
        s.devs[src].incoming.append(m)
        s.status[msg_id(m)] = 'device'
        s.order[src].append(msg_id(m))

    def ops(s, hist):
        out = []
        if kind != 'echo':
            for i in s.in_srcs:
                out.append(('deliver', i))
            for i in sorted(s.selfclosing):
                if not s.devs[i].hung_up:
                    out.append(('hangup', i))
        if s.can_out:
            out.append(('send',))
            if s.autoreset_dev is not None:
                # the application itself sends what a reset would send
                out += [('send_ctl', 'last'), ('send_ctl', 'first'),
                        ('reset',)]
        if s.can_in:
            out += [('poll',), ('recv_nb',), ('iter_pending',)]
            scripts = [(), ('N', 'N', 'N', 'N', 'N')]
            if kind != 'echo':
                for i in s.in_srcs:
                    scripts += [(f'D{i}',), ('N', f'D{i}')]
                for i in sorted(s.selfclosing):
                    scripts += [(f'H{i}',), ('N', f'H{i}'),
                                (f'D{i}', ), ]
            for sc in scripts:
                out.append(('recv', sc))
                if kind != 'echo':
                    out.append(('iter_next', sc))
        out += [('close',), ('with',), ('with_raise',), ('del',)]
        if s.autoreset_dev is not None and not s.closed_model:
            out += [('arm_fail', 1), ('arm_fail', 7), ('arm_fail', 32)]
        if kind != 'echo' and s.can_in and not s.closed_model:
            for i in s.in_srcs:
                if s.devs[i].fail_receive_at is None:
                    out.append(('arm_fail_recv', i))
        return out

    def apply(s, op):
        k = op[0]
        p = s.port
        obs = {'op': op, 'slept_while_available': None, 'sleeps': 0,
               'blocking_receive_calls': 0}
        sync_model(s)
        heads0, all0 = available(s)
        obs['avail_before'] = list(all0)
        obs['heads_before'] = list(heads0)
        obs['closed_before'] = s.closed_model or getattr(p, 'closed', False)
        sent0 = [len(d.sent) for d in s.devs]
        rc0 = [len(d.receive_calls) for d in s.devs]
        script = list(op[1]) if k in ('recv', 'iter_next') else None
        idle = [0]

        def on_sleep(seconds):
            obs['sleeps'] += 1
            sync_model(s)
            _, alln = available(s)
            if alln and obs['slept_while_available'] is None:
                obs['slept_while_available'] = list(alln)
            if script:
                act = script.pop(0)
                if act[0] == 'D':
                    deliver(s, int(act[1:]))
                elif act[0] == 'H':
                    s.devs[int(act[1:])].hung_up = True
                return
            idle[0] += 1
            if idle[0] > H or script is None:
                raise Horizon()

        tshim.on_sleep = on_sleep
        try:
            if k == 'deliver':
                deliver(s, op[1])
                res = ('env',)
            elif k == 'hangup':
                s.devs[op[1]].hung_up = True
                res = ('env',)
            elif k == 'arm_fail':
                d = s.devs[s.autoreset_dev]
                d.fail_send_at = d.send_calls + op[1]
                res = ('env',)
            elif k == 'arm_fail_recv':
                d = s.devs[op[1]]
                d.fail_receive_at = len(d.receive_calls) + 1
                res = ('env',)
            elif k == 'reset':
                try:
                    p.reset()
                    res = ('ok',)
                except Exception as e:
                    res = ('raised', e)
            elif k in ('send', 'send_ctl'):
                s.counter += 1
                m = M('note_on', note=s.counter % 128,
                      velocity=1 if kind == 'echo' else 100)
                if k == 'send_ctl':
                    m = (M('control_change', channel=15, control=121, value=0)
                         if op[1] == 'last' else
                         M('control_change', channel=0, control=123, value=0))
                obs['sent_obj'] = m
                try:
                    p.send(m)
                    res = ('ok',)
                except Exception as e:
                    res = ('raised', e)
            elif k in ('poll', 'recv_nb'):
                try:
                    r = p.poll() if k == 'poll' else p.receive(block=False)
                    res = ('value', r)
                except Exception as e:
                    res = ('raised', e)
            elif k == 'recv':
                try:
                    res = ('value', p.receive())
                except Horizon:
                    res = ('horizon',)
                except Exception as e:
                    res = ('raised', e)
            elif k == 'iter_next':
                if s.iter is None:
                    s.iter = iter(p)
                try:
                    res = ('value', next(s.iter))
                except StopIteration:
                    s.iter = None
                    res = ('stop',)
                except Horizon:
                    s.iter = None       # the generator is dead after this
                    res = ('horizon',)
                except Exception as e:
                    s.iter = None
                    res = ('raised', e)
            elif k == 'iter_pending':
                items = []
                try:
                    for m in p.iter_pending():
                        items.append(m)
                        if len(items) > 5000:
                            raise Endless('iter_pending() does not end')
                    res = ('values', items)
                except Exception as e:
                    # what was yielded before the failure was received
                    res = ('values-then-raised', items, e)
            elif k in ('close', 'with', 'with_raise', 'del'):
                try:
                    if k == 'close':
                        p.close()
                    elif k == 'with':
                        with p:
                            pass
                    elif k == 'with_raise':
                        # the body of the with block fails: the port is
                        # closed all the same (whether the exception then
                        # propagates is not judged here)
                        try:
                            with p:
                                raise KeyError('body of the with block')
                        except KeyError:
                            pass
                    else:
                        p.__del__()
                    res = ('ok',)
                except Exception as e:
                    res = ('raised', e)
                s.closed_model = True
            else:
                raise AssertionError(op)
        except Horizon:
            res = ('horizon',)
        finally:
            tshim.on_sleep = None
        obs['res'] = res
        obs['sent_delta'] = [len(d.sent) - a for d, a in zip(s.devs, sent0)]
        obs['new_receive_calls'] = [d.receive_calls[a:]
                                    for d, a in zip(s.devs, rc0)]
        sync_model(s)
        # bookkeeping of returned messages
        vals = []
        if res[0] == 'value' and res[1] is not None:
            vals = [res[1]]
        elif res[0] in ('values', 'values-then-raised'):
            vals = list(res[1])
        obs['returned_ids'] = []
        for m in vals:
            try:
                mid = msg_id(m)
            except Exception:
                mid = ('?', repr(m))
            obs['returned_ids'].append((mid, s.status.get(mid)))
            if s.status.get(mid) in ('device', 'taken'):
                s.status[mid] = 'returned'
        if kind == 'echo' and k == 'send' and res[0] == 'ok':
            m = obs['sent_obj']
            mid = (0, m.note)
            s.status[mid] = 'taken'
            s.order[0].append(mid)
        return obs

    def check(s, hist, op, obs, violation):
        k = op[0]
        res = obs['res']
        case = {'kind': 'history', 'port': kind,
                'ops': [list(map(_j, o)) for o in hist + (op,)]}

        def bad(key, what):
            violation(f'{kind}/{k}/{key}',
                      f'{kind}: {what} [history {hist + (op,)}]', case)

        # --- invariants on every step
        for i, d in enumerate(s.devs):
            if d.released > 1:
                bad('released-twice', f'device {d.name} released '
                    f'{d.released} times')
                return
        if k in ('close', 'with', 'with_raise', 'del'):
            if res[0] == 'raised':
                bad(f'close-raised/{type(res[1]).__name__}', f'{res[1]!r}')
                return
            if kind != 'echo' or True:
                if not s.port.closed:
                    bad('not-closed', 'port.closed is False after close')
            for i in s.owned:
                if s.devs[i].released != 1:
                    bad('not-released', f'device {s.devs[i].name} released '
                        f'{s.devs[i].released} times after close')
                    return
            if s.autoreset_dev is not None:
                d = s.devs[s.autoreset_dev]
                # what this close call wrote to the device
                n_now = obs['sent_delta'][s.autoreset_dev]
                phase = d.sent[len(d.sent) - n_now:] if n_now else []
                resets = [(m.channel, m.control) if m.type == 'control_change'
                          and m.value == 0 else ('other', m.type)
                          for m in phase]
                if obs['closed_before']:
                    if phase:
                        bad('autoreset-again', f'{len(phase)} messages sent '
                            f'by a close call on an already closed port')
                    return
                close_pos = [j for j, e in enumerate(d.log) if e[0] == 'close']
                after = [e for e in d.log[close_pos[0] + 1:]
                         if e[0] == 'send'] if close_pos else []
                if after:
                    bad('send-after-release', 'messages sent to the device '
                        'after it was released')
                armed = d.fail_send_at is not None
                if not armed and resets != reset_sequence():
                    bad('autoreset', f'reset messages sent: {len(resets)} '
                        f'(expected the 32 of reset_messages(), once, before '
                        f'the device is released)')
            return
        if k in ('deliver', 'hangup', 'arm_fail', 'arm_fail_recv'):
            return
        nb = k in ('poll', 'recv_nb', 'iter_pending', 'send', 'send_ctl', 'reset')
        if nb and obs['sleeps']:
            bad('non-blocking-call-waited', f'{obs["sleeps"]} sleep call(s) '
                f'inside a non-blocking call')
            return
        if nb and any(True in calls or any(c is True for c in calls)
                      for calls in obs['new_receive_calls']):
            bad('non-blocking-call-blocking-device-read',
                '_receive(block=True) reached from a non-blocking call')
            return
        if k == 'reset':
            if res[0] == 'raised':
                if isinstance(res[1], OSError) and 'injected' in str(res[1]):
                    return
                bad(f'reset-raised/{type(res[1]).__name__}', f'{res[1]!r}')
                return
            d = s.devs[s.autoreset_dev]
            n_now = obs['sent_delta'][s.autoreset_dev]
            got = [(m.channel, m.control) if m.type == 'control_change'
                   and m.value == 0 else ('other', m.type)
                   for m in (d.sent[len(d.sent) - n_now:] if n_now else [])]
            want = [] if obs['closed_before'] else reset_sequence()
            if got != want:
                bad('reset', f'reset() wrote {len(got)} messages to the device, '
                    f'expected {len(want)}')
            return
        if k in ('send', 'send_ctl'):
            if obs['closed_before']:
                if res[0] != 'raised' or not isinstance(res[1], ValueError):
                    bad('send-on-closed', f'send on a closed port: {res}')
                elif any(obs['sent_delta']):
                    bad('send-on-closed-wrote', 'message written to a '
                        'released device')
                return
            if res[0] == 'raised':
                if isinstance(res[1], OSError) and 'injected' in str(res[1]):
                    return      # the armed device failure, passed on
                bad(f'send-raised/{type(res[1]).__name__}', f'{res[1]!r}')
                return
            if kind == 'echo':
                return
            for i in s.out_devs:
                child_closed = False
                if kind.startswith('multi'):
                    cd = getattr(s, 'child_devs', None)
                    ci = i if cd is None else next(
                        c for c, ds in cd.items() if i in ds)
                    child_closed = s.children[ci].closed
                want = 0 if child_closed else 1
                if obs['sent_delta'][i] != want:
                    bad('send-count', f'device {s.devs[i].name} got '
                        f'{obs["sent_delta"][i]} messages, expected {want}')
                    return
                if want:
                    got = s.devs[i].sent[-1]
                    if got is obs['sent_obj'] or vars(got) != vars(
                            obs['sent_obj']):
                        bad('send-not-a-copy', f'device got {got!r} '
                            f'(same object: {got is obs["sent_obj"]})')
            return
        # --- receiving operations
        avail = obs['avail_before']
        heads = obs['heads_before']
        if res[0] == 'values-then-raised':
            e = res[2]
            if not (isinstance(e, OSError) and 'injected' in str(e)):
                bad(f'raised/{type(e).__name__}', f'{e!r}')
                return
            for mid, st in obs['returned_ids']:
                if st not in ('device', 'taken'):
                    bad('duplicate-or-phantom', f'returned {mid} ({st})')
            return
        if res[0] == 'raised' and isinstance(res[1], OSError) and \
                'injected' in str(res[1]):
            return      # the armed device read failure, passed on to the caller
        if res[0] == 'raised' and isinstance(res[1], BaseException):
            e = res[1]
            if k in ('poll', 'recv_nb', 'iter_pending'):
                bad(f'raised/{type(e).__name__}', f'{e!r}')
                return
            if k == 'iter_next':
                if kind.startswith('ioport') and s.inp.closed and \
                        not obs['closed_before']:
                    bad('iteration-raised/wrapper-unaware-of-closed-input',
                        f'the wrapped input port closed itself; iterating '
                        f'the IOPort wrapper raised {e!r} instead of ending')
                    return
                bad(f'iteration-raised/{type(e).__name__}/'
                    f'{"closed-before" if obs["closed_before"] else "open"}',
                    f'iterating raised {e!r} instead of ending')
                return
            # blocking receive(): an exception is the way to "stop", but only
            # once nothing taken in is left
            if avail and not _only_lost_now(s, avail):
                bad(f'receive-raised-with-pending/{type(e).__name__}',
                    f'{e!r} although {avail} could be handed out')
            elif not isinstance(e, (OSError, ValueError)):
                bad(f'receive-raised/{type(e).__name__}', f'{e!r}')
            return
        if obs['slept_while_available'] is not None:
            bad('waited-although-deliverable',
                f'sleep() was called while {obs["slept_while_available"]} '
                f'could be handed out (a blocking receive must return as soon '
                f'as a message is deliverable)')
            return
        for mid, st in obs['returned_ids']:
            if st not in ('device', 'taken'):
                bad('duplicate-or-phantom', f'returned message {mid} whose '
                    f'status was {st}')
                return
        if k in ('poll', 'recv_nb'):
            if res[1] is None:
                if avail:
                    bad('none-while-pending', f'returned None although '
                        f'{avail} can be handed out')
            elif obs['returned_ids'][0][0] not in heads:
                bad('order', f'returned {obs["returned_ids"][0][0]}, '
                    f'per-source FIFO heads were {heads}')
        elif k == 'iter_pending':
            got = [mid for mid, _ in obs['returned_ids']]
            if sorted(got) != sorted(avail):
                bad('iter_pending-incomplete', f'returned {got}, available '
                    f'were {avail}')
            else:
                for i in s.order:
                    sub = [g for g in got if g in s.order[i]]
                    if sub != [m for m in s.order[i] if m in got]:
                        bad('order', f'iter_pending order {got}')
        elif k in ('recv', 'iter_next'):
            if res[0] == 'value':
                if res[1] is None:
                    bad('blocking-returned-none', 'receive() returned None')
                elif avail and obs['returned_ids'][0][0] not in heads:
                    bad('order', f'returned {obs["returned_ids"][0][0]}, '
                        f'heads {heads}')
                elif avail and obs['sleeps']:
                    bad('waited-although-deliverable', 'slept with a message '
                        'pending')
            elif res[0] == 'stop':
                if avail and not _only_lost_now(s, avail):
                    bad('iteration-ended-with-pending',
                        f'iteration stopped although {avail} were pending')
                elif not s.port.closed and not (
                        kind.startswith('ioport') and s.inp.closed):
                    bad('iteration-ended-on-open-port',
                        'iteration stopped but the port is open')
            elif res[0] == 'horizon':
                if avail:
                    bad('never-returned', f'blocking call kept polling with '
                        f'{avail} deliverable')
                elif obs['closed_before']:
                    bad('blocked-on-closed-port', 'blocking call on a closed '
                        'port kept polling')

    def key(s):
        live = tuple(sorted((m, st) for m, st in s.status.items()
                            if st in ('device', 'taken')))
        return (canon(s.port), canon(s.devs), live, s.closed_model,
                canon(s.iter), min(s.counter, 5))

    def expand(s, hist, op):
        _, alln = available(s)
        return len(alln) <= 2 and s.counter <= 4

    return Search(build, ops, apply, check, key, max_depth=depth,
                  expand=expand)


def _only_lost_now(s, avail):
    return all(s.status.get(m) in ('lost', 'returned') for m in avail)


def _j(x):
    return list(x) if isinstance(x, tuple) else x


def worker(shard):
    mido = common.import_mido()
    acc = Acc()
    kind, depth, root = shard
    srch = make_search(mido, kind, depth)
    srch.run(acc.violation, procs=1)
    acc.evals = srch.transitions
    acc.nontrivial = srch.transitions
    acc.count('states', srch.states)
    acc.count('transitions', srch.transitions)
    acc.count('traces_validated_against_impl', srch.transitions)
    for smp in srch.samples[:1]:
        acc.sample({'port': kind, 'ops': [list(map(_j, o)) for o in smp]})
    return acc


BACKLOGS = (63, 64, 65, 100, 127, 128, 129, 255, 256, 257, 1000, 1025)


def bulk_backlog(mido, rep):
    """A large backlog pending at once (single-threaded): every message
    exactly once, per-source order, through poll / iter_pending / blocking
    receive / iteration.  Internal batch limits sit at such sizes."""
    tshim, _ = install_seams(mido)
    M = mido.Message
    for kind in KINDS:
        for n in BACKLOGS:
            for how in ('poll', 'iter_pending', 'receive'):
                s = build_port(mido, kind)
                if not s.can_in:
                    continue
                rep.add('evaluations')
                rep.add('distinct_nontrivial')
                want = []
                srcs = s.in_srcs or [0]
                for j in range(n):
                    src = srcs[j % len(srcs)]
                    m = M('note_on', channel=src, note=j % 128,
                          velocity=1 + (j // 128) % 100)
                    want.append((src, j % 128, 1 + (j // 128) % 100))
                    if kind == 'echo':
                        s.port.send(m)
                    else:
                        s.devs[src].incoming.append(m)
                case = {'kind': 'bulk', 'port': kind, 'n': n, 'how': how}
                sleeps = [0]

                def on_sleep(sec):
                    sleeps[0] += 1
                    raise Horizon()
                tshim.on_sleep = on_sleep
                got = []
                try:
                    if how == 'poll':
                        while True:
                            m = s.port.poll()
                            if m is None:
                                break
                            got.append(m)
                    elif how == 'iter_pending':
                        got = take(s.port.iter_pending())
                        got += take(s.port.iter_pending())
                    else:
                        for _ in range(n):
                            got.append(s.port.receive())
                except Horizon:
                    pass
                except Exception as e:
                    rep.violation(f'{kind}/bulk/{how}/raised/{type(e).__name__}',
                                  f'{kind}: backlog of {n}: {how} raised {e!r}',
                                  case)
                    continue
                finally:
                    tshim.on_sleep = None
                got = [g[1] if isinstance(g, tuple) else g for g in got]
                try:
                    have = [(m.channel, m.note, m.velocity) for m in got]
                except AttributeError:
                    rep.violation(f'{kind}/bulk/{how}/not-a-message',
                                  f'{kind}: backlog of {n}: {how} handed out '
                                  f'{[g for g in got if not hasattr(g, "note")][:3]!r}',
                                  case)
                    continue
                ok = sorted(have) == sorted(want)
                for src in srcs:
                    if [h for h in have if h[0] == src] != \
                            [w for w in want if w[0] == src]:
                        ok = False
                if not ok:
                    lost = len(want) - len(have)
                    rep.violation(f'{kind}/bulk/{how}/exactly-once',
                                  f'{kind}: backlog of {n} messages pending at '
                                  f'once, drained with {how}: got {len(have)} '
                                  f'({lost} lost, '
                                  f'{len(have) - len(set(have))} duplicated or '
                                  f'order broken)', case)


def multi_functions(mido, rep):
    """The function forms next to MultiPort: multi_receive (a generator that
    blocks by default), multi_iter_pending, multi_send, with and without
    yield_ports - same drain / blocking rules as the port."""
    tshim, _ = install_seams(mido)
    M = mido.Message
    P = mido.ports

    def fresh(n):
        s = build_port(mido, 'multi-of-direct')
        want = []
        for j in range(n):
            src = j % 2
            m = M('note_on', channel=src, note=j, velocity=1 + src)
            s.devs[src].incoming.append(m)
            want.append((src, j))
        return s, want

    def ids(items, with_ports, s):
        out = []
        for it in items:
            if with_ports:
                if not (isinstance(it, tuple) and len(it) == 2
                        and it[0] is s.children[it[1].channel]):
                    return f'expected (port, message) pairs, got {it!r}'
                it = it[1]
            if not isinstance(it, M):
                return f'expected messages, got {it!r}'
            out.append((it.channel, it.note))
        return out

    def judge(label, got, want, case):
        rep.add('evaluations')
        rep.add('distinct_nontrivial')
        if isinstance(got, str) or sorted(got) != sorted(want) or any(
                [g for g in got if g[0] == c] != [w for w in want if w[0] == c]
                for c in (0, 1)):
            rep.violation(f'multi-functions/{label}',
                          f'{label}: got {got!r:.300}, expected {want!r:.300} '
                          f'(each once, per-port order)', case)

    for n in (0, 1, 4, 7):
        for yp in (None, False, True):
            kw = {} if yp is None else {'yield_ports': yp}
            case = {'kind': 'multi-functions', 'n': n, 'yield_ports': yp}
            sleeps = [0]

            def on_sleep(sec):
                sleeps[0] += 1
                raise Horizon()
            tshim.on_sleep = on_sleep
            try:
                s, want = fresh(n)
                judge('multi_iter_pending', ids(take(P.multi_iter_pending(
                    s.children, **kw)), bool(yp), s), want, case)
                s, want = fresh(n)
                judge('multi_receive(block=False)', ids(take(P.multi_receive(
                    s.children, block=False, **kw)), bool(yp), s), want, case)
                # default: blocking - hands out what is there, then waits
                s, want = fresh(n)
                gen = P.multi_receive(s.children, **kw)
                got = []
                ended = 'slept'
                try:
                    for _ in range(n + 1):
                        got.append(next(gen))
                    ended = 'extra-item'
                except Horizon:
                    pass
                except StopIteration:
                    ended = 'stopped'
                judge('multi_receive()', ids(got, bool(yp), s), want, case)
                if ended != 'slept' or sleeps[0] != 1:
                    rep.violation('multi-functions/multi_receive()/blocking',
                                  f'multi_receive(ports) with {n} pending: '
                                  f'after handing them out it {ended} '
                                  f'({sleeps[0]} sleeps); it must wait',
                                  case)
            except Horizon:
                rep.violation('multi-functions/non-blocking-form-waited',
                              'multi_iter_pending / multi_receive(block=False) '
                              'went to sleep instead of returning', case)
            except Exception as e:
                rep.violation(f'multi-functions/raised/{type(e).__name__}',
                              f'{e!r}', case)
            finally:
                tshim.on_sleep = None
    # multi_send: every port gets its own copy
    s = build_port(mido, 'multi')
    m = M('note_on', note=5, velocity=9)
    rep.add('evaluations')
    try:
        P.multi_send(s.children, m)
        for d in s.devs:
            if len(d.sent) != 1 or d.sent[0] is m or vars(d.sent[0]) != vars(m):
                rep.violation('multi-functions/multi_send',
                              f'device {d.name} got {d.sent!r}',
                              {'kind': 'multi-functions'})
    except Exception as e:
        rep.violation(f'multi-functions/multi_send/{type(e).__name__}',
                      f'{e!r}', {'kind': 'multi-functions'})


def run():
    common.import_mido()
    thorough = common.tier() == 'thorough'
    rep = Report(PROP, 'model_checking',
                 'BFS over operation histories on every port kind with the '
                 'sleep seam as an environment choice point, against a '
                 'life-cycle reference automaton')
    depth = 7 if thorough else 5
    mido = common.import_mido()
    mido = common.import_mido()
    for k in KINDS:
        srch = make_search(mido, k, depth)
        srch.run(rep.violation, procs=common.nproc())
        srch.fill(rep)
        rep.add('evaluations', srch.transitions)
        rep.add('distinct_nontrivial', srch.transitions)
        if 'call-never-returned' in rep.violations:
            # the implementation hangs: every further port kind would wait
            # for the same time limit again
            break
    if 'call-never-returned' not in rep.violations:
        bulk_backlog(mido, rep)
        multi_functions(mido, rep)
    rep.coverage['bulk_backlogs'] = list(BACKLOGS)
    rep.coverage['bfs_depth'] = depth
    rep.coverage['port_kinds'] = list(KINDS)
    rep.coverage['exhaustive'] = True
    rep.coverage['rule'] = (
        f'{len(KINDS)} port kinds (device doubles implementing only '
        f'_open/_close/_send/_receive, direct and parser style, with and '
        f'without autoreset, self-closing like a socket; EchoPort; IOPort '
        f'wrapper; MultiPort) x every history of length <= {depth} over '
        f'{{device delivers a message, device hangs up, send, poll, '
        f'receive(block=False), list(iter_pending()), blocking receive() and '
        f'next(iterator) each with an environment script for the sleep seam '
        f'(nothing / message arrives / device hangs up at the 1st or 2nd '
        f'poll, or nothing up to horizon {H}), close, with-exit, __del__, '
        f'fail the k-th device write, fail the next device read}}. Reference: per-source FIFO of '
        f'delivered / taken-in / returned messages, closed flag, release '
        f'counter, reset sequence. Deduplicated by the complete vars() of '
        f'port, devices and model')
    rep.assumptions += [
        'devices are doubles at the documented _open/_close/_send/_receive '
        'seam; real backends are out of reach',
        'messages still inside the device when the port closes may be lost',
    ]
    rep.require(rep.coverage.get("states", 0) > 1000, 'too few states')
    return rep


def check_case(case):
    mido = common.import_mido()
    out = []
    if case.get('kind') == 'bulk':
        rep = Report(PROP, 'model_checking')
        bulk_backlog(mido, rep)
        return [(k, v[0].what) for k, v in rep.violations.items()]
    if case.get('kind') == 'multi-functions':
        rep = Report(PROP, 'model_checking')
        multi_functions(mido, rep)
        return [(k, v[0].what) for k, v in rep.violations.items()]
    srch = make_search(mido, case['port'], 99)
    hist = tuple(tuple(tuple(x) if isinstance(x, list) else x for x in o)
                 for o in case['ops'])
    s = srch.build(hist[:-1])
    obs = srch.apply(s, hist[-1])
    srch.check(s, hist[:-1], hist[-1], obs,
               lambda k, w, c=None: out.append((k, w)))
    return out


def replay(path):
    from ..replay import generic_replay
    return generic_replay(PROP, path, check_case)
