"""C10 - ports deliver each message exactly once and in order under
concurrent use (E4: every thread schedule with a bounded number of
preemptions, at statement granularity in mido/ports.py, the parser queue and
the device doubles)."""
import multiprocessing as mp
import os
import sys

from .. import common
from .. import engine_sched as es
from ..evidence import Report
from ..ref import midi as ref

PROP = 'C10'
JOB_BUDGET = 120      # executions per job before the rest is handed back


def install(mido):
    """Cooperative primitives in place of threading / time / queue inside
    mido (module-level names; no source hooks)."""
    from .ports_common import RandomShim
    p = mido.ports
    if not isinstance(p.threading, es.ThreadingShim):
        p.threading = es.ThreadingShim(p.threading)

    class TimeShim:
        def __init__(self, real):
            self._real = real

        def sleep(self, s):
            es.coop_sleep(s)

        def __getattr__(self, n):
            return getattr(self._real, n)
    if type(p.time).__name__ != 'TimeShim' or not hasattr(p.time, '_coop'):
        real = getattr(p.time, '_real', p.time)
        p.time = TimeShim(real)
        p.time._coop = True
    if not isinstance(p.random, RandomShim):
        p.random = RandomShim(p.random)
    import mido.backends._parser_queue as pq
    pq.queue = es.QueueShim()
    pq.RLock = es.CoopRLock
    return p.random


def watched_files(mido, program=None):
    import mido.backends._parser_queue as pq
    from . import c10_doubles
    base = {mido.ports.__file__, pq.__file__, c10_doubles.__file__}
    if program is not None and program.startswith('P7'):
        # two ports parsing at the same time: the parser and tokenizer are
        # scheduling points too
        import mido.parser
        import mido.tokenizer
        base |= {mido.parser.__file__, mido.tokenizer.__file__}
    return frozenset(base)


def assert_coop(port):
    lk = getattr(port, '_lock', None)
    if not isinstance(lk, (es.CoopRLock,)) and type(lk).__name__ != 'DummyLock':
        raise es.HarnessLost(f'{port!r} holds a real lock {lk!r}: the harness '
                             f'does not control it')


# ---------------------------------------------------------------- programs
def note(mido, sender, seq):
    return mido.Message('note_on', channel=sender, note=10 * sender + seq,
                        velocity=64)


def sender_body(mido, port, sender, n, sent):
    def body():
        out = []
        for k in range(n):
            m = note(mido, sender, k)
            sent.append((sender, k))
            try:
                port.send(m)
                out.append(('sent', sender, k))
            except Exception as e:
                out.append(('raised', 'send', type(e).__name__, str(e)))
                return out
            m.velocity = 1          # mutate the original after send returns
            m.note = 127
        return out
    return body


def reusing_sender_body(mido, port, sender, n, sent):
    """Sends the SAME message object n times, changing its note in between:
    every delivery must carry the values the object had when it was sent."""
    def body():
        out = []
        m = note(mido, sender, 0)
        for k in range(n):
            m.note = 10 * sender + k
            m.velocity = 64
            sent.append((sender, k))
            try:
                port.send(m)
                out.append(('sent', sender, k))
            except Exception as e:
                out.append(('raised', 'send', type(e).__name__, str(e)))
                return out
            m.velocity = 1
        return out
    return body


def rt_resending_body(mido, port, sender, n, sent, type_='clock'):
    """Sends the SAME real-time message object n times; its time attribute
    (the only thing such a message carries) numbers the sends and is
    overwritten after each send."""
    def body():
        out = []
        m = mido.Message(type_)
        for k in range(n):
            m.time = 10 * sender + k
            sent.append((sender, k))
            try:
                port.send(m)
                out.append(('sent', sender, k))
            except Exception as e:
                out.append(('raised', 'send', type(e).__name__, str(e)))
                return out
            m.time = 999
        return out
    return body


def rt_view(sender, type_='clock'):
    # presents a received real-time message in the ('got', sender, number,
    # velocity, type) form the judge expects
    def view(m):
        t = getattr(m, 'time', None)
        return ('got', sender, t, 64 if t != 999 else 1,
                'note_on' if getattr(m, 'type', None) == type_ else
                getattr(m, 'type', None))
    return view


def note_view(m):
    return ('got', getattr(m, 'channel', None), getattr(m, 'note', None),
            getattr(m, 'velocity', None), getattr(m, 'type', None))


def receiver_body(mido, port, n, how='receive', view=note_view):
    def body():
        out = []
        while len([o for o in out if o[0] == 'got']) < n:
            try:
                if how == 'receive':
                    m = port.receive()
                elif how == 'poll':
                    m = port.poll()
                    if m is None:
                        mido.ports.sleep()
                        continue
                elif how == 'iter_pending_first':
                    # leave the iteration after the first message: the rest
                    # must still be there for the next call
                    m = None
                    for m in port.iter_pending():
                        break
                    if m is None:
                        mido.ports.sleep()
                        continue
                else:
                    ms = list(port.iter_pending())
                    if not ms:
                        mido.ports.sleep()
                        continue
                    for m in ms:
                        out.append(view(m))
                    continue
            except Exception as e:
                out.append(('raised', how, type(e).__name__, str(e)))
                return out
            out.append(view(m))
        return out
    return body


def programs(mido, size):
    """name -> factory() -> (bodies, finish)"""
    from . import c10_doubles
    ByteDouble, ByteInput, ByteOutput = c10_doubles.make(mido)
    ns = 2 if size >= 2 else 1      # sends per sender

    def p_echo(how):
        def make():
            port = mido.ports.EchoPort()
            assert_coop(port)
            sent = []
            bodies = [sender_body(mido, port, 0, ns, sent),
                      sender_body(mido, port, 1, ns, sent),
                      receiver_body(mido, port, 2 * ns, how)]
            return bodies, lambda: {'sent': sent, 'keep': port}
        return make

    def p_reuse():
        def make():
            port = mido.ports.EchoPort()
            assert_coop(port)
            sent = []
            bodies = [reusing_sender_body(mido, port, 0, 3, sent),
                      receiver_body(mido, port, 3)]
            return bodies, lambda: {'sent': sent, 'keep': port,
                                    'identity': port}
        return make

    def p_reuse_rt(kind):
        def make():
            if kind == 'echo':
                port = mido.ports.EchoPort()
                keep = port
            else:
                wire = []
                port = ByteDouble('dev', wire_out=wire, wire_in=wire)
                keep = port
            assert_coop(port)
            sent = []
            bodies = [rt_resending_body(mido, port, 0, 3, sent),
                      receiver_body(mido, port, 3, view=rt_view(0))]
            return bodies, lambda: {'sent': sent, 'keep': keep}
        return make

    def p_two_ports():
        def make():
            wa, wb = [], []
            a = ByteDouble('a', wire_out=wa, wire_in=wa)
            b = ByteDouble('b', wire_out=wb, wire_in=wb)
            assert_coop(a)
            assert_coop(b)
            sent = []
            bodies = [sender_body(mido, a, 0, 1, sent),
                      sender_body(mido, b, 1, 1, sent),
                      receiver_body(mido, a, 1), receiver_body(mido, b, 1)]
            # each port's receiver may only see its own port's traffic
            return bodies, lambda: {'sent': sent, 'keep': (a, b),
                                    'only_from': {2: 0, 3: 1}}
        return make

    def p_device():
        def make():
            wire = []
            port = ByteDouble('dev', wire_out=wire, wire_in=wire)
            assert_coop(port)
            sent = []
            bodies = [sender_body(mido, port, 0, 1, sent),
                      sender_body(mido, port, 1, 1, sent),
                      receiver_body(mido, port, 1), receiver_body(mido, port, 1)]
            return bodies, lambda: {'sent': sent, 'keep': port}
        return make

    def p_ioport(how='poll'):
        def make():
            wire = []
            inp = ByteInput('in', wire_in=wire)
            outp = ByteOutput('out', wire_out=wire)
            port = mido.ports.IOPort(inp, outp)
            assert_coop(inp)
            assert_coop(outp)
            assert_coop(port)
            sent = []

            def poll_once():
                try:
                    if how == 'poll':
                        ms = [port.poll()]
                    elif how == 'iter_pending':
                        ms = list(port.iter_pending())
                    else:
                        ms = [port.receive(block=False)]
                except Exception as e:
                    return [('raised', how, type(e).__name__, str(e))]
                return [('got', m.channel, m.note, m.velocity, m.type)
                        for m in ms if m is not None]
            # 2 messages and three single polls (nobody can starve): the
            # wrapper's pending-check and pop can be separated by one
            # preemption
            bodies = [sender_body(mido, port, 0, 2, sent),
                      poll_once, poll_once, poll_once]
            return bodies, lambda: {'sent': sent, 'keep': (port, inp, outp),
                                    'drain': port}
        return make

    def p_multi(perm):
        def make():
            wa, wb = [], []
            a = ByteDouble('a', wire_out=wa, wire_in=wa)
            b = ByteDouble('b', wire_out=wb, wire_in=wb)
            port = mido.ports.MultiPort([a, b])
            for x in (a, b, port):
                assert_coop(x)
            mido.ports.random.perm = perm
            sent = []
            bodies = [sender_body(mido, a, 0, 1, sent),
                      sender_body(mido, b, 1, 1, sent),
                      receiver_body(mido, port, 1), receiver_body(mido, port, 1)]
            return bodies, lambda: {'sent': sent, 'keep': (port, a, b)}
        return make

    def p_multi_order():
        # one sender, three messages through one sub-port; two receivers on
        # the MultiPort: each must see the sender's messages in order
        def make():
            wa, wb = [], []
            a = ByteDouble('a', wire_out=wa, wire_in=wa)
            b = ByteDouble('b', wire_out=wb, wire_in=wb)
            port = mido.ports.MultiPort([a, b])
            for x in (a, b, port):
                assert_coop(x)
            mido.ports.random.perm = None
            sent = []
            bodies = [sender_body(mido, a, 0, 3, sent),
                      receiver_body(mido, port, 2), receiver_body(mido, port, 1)]
            return bodies, lambda: {'sent': sent, 'keep': (port, a, b)}
        return make

    def p_multi_send():
        def make():
            wa, wb = [], []
            a = ByteDouble('a', wire_out=wa, wire_in=wa)
            b = ByteDouble('b', wire_out=wb, wire_in=wb)
            port = mido.ports.MultiPort([a, b])
            mido.ports.random.perm = None
            sent = []

            def expect_twice():
                return {'sent': sent + sent, 'keep': (port, a, b)}
            bodies = [sender_body(mido, port, 0, 1, sent),
                      sender_body(mido, port, 1, 1, sent),
                      receiver_body(mido, a, 2), receiver_body(mido, b, 2)]
            return bodies, expect_twice
        return make

    def p_queue(batch=False):
        def make():
            from mido.backends._parser_queue import ParserQueue
            q = ParserQueue()
            if not isinstance(q._parser_lock, es.CoopRLock) or \
                    not isinstance(q._queue, es.CoopQueue):
                raise es.HarnessLost('ParserQueue holds real primitives')
            sent = []

            def batch_putter(sender, n):
                # n messages in ONE put_bytes call
                def body():
                    data = []
                    for k in range(n):
                        data += note(mido, sender, k).bytes()
                        sent.append((sender, k))
                    try:
                        q.put_bytes(data)
                    except Exception as e:
                        return [('raised', 'put_bytes', type(e).__name__,
                                 str(e))]
                    return [('sent', sender, k) for k in range(n)]
                return body

            def putter(sender):
                def body():
                    out = []
                    for k in range(ns):
                        m = note(mido, sender, k)
                        sent.append((sender, k))
                        try:
                            q.put_bytes(m.bytes())
                            out.append(('sent', sender, k))
                        except Exception as e:
                            out.append(('raised', 'put_bytes',
                                        type(e).__name__, str(e)))
                    return out
                return body

            total = 3 if batch else 2 * ns

            def poller():
                out = []
                while len(out) < total:
                    try:
                        m = q.poll()
                    except Exception as e:
                        out.append(('raised', 'poll', type(e).__name__, str(e)))
                        return out
                    if m is None:
                        mido.ports.sleep()
                        continue
                    out.append(('got', m.channel, m.note, m.velocity, m.type))
                return out
            if batch:
                return [batch_putter(0, 2), batch_putter(1, 1), poller], \
                    lambda: {'sent': sent, 'keep': q}
            return [putter(0), putter(1), poller], lambda: {'sent': sent,
                                                            'keep': q}
        return make

    def p_backlog(kind, n, how='receive'):
        # one sender gets n messages ahead before anybody receives (batch
        # limits in fan-in / drain paths sit beyond the small programs)
        def make():
            wa, wb = [], []
            if kind == 'multi':
                a = ByteDouble('a', wire_out=wa, wire_in=wa)
                b = ByteDouble('b', wire_out=wb, wire_in=wb)
                port = mido.ports.MultiPort([b, a])
                mido.ports.random.perm = None
                keep, out = (port, a, b), a
                for x in (a, b, port):
                    assert_coop(x)
            elif kind == 'echo':
                port = out = mido.ports.EchoPort()
                keep = port
                assert_coop(port)
            else:
                inp = ByteInput('in', wire_in=wa)
                outp = ByteOutput('out', wire_out=wa)
                port = out = mido.ports.IOPort(inp, outp)
                keep = (port, inp, outp)
                for x in keep:
                    assert_coop(x)
            sent = []
            bodies = [sender_body(mido, out, 0, n, sent),
                      receiver_body(mido, port, n, how)]
            return bodies, lambda: {'sent': sent, 'keep': keep}
        return make

    progs = {}
    for kind in ('multi', 'echo', 'ioport'):
        for n, how in ((9, 'receive'), (40, 'iter_pending'), (60, 'poll')):
            progs[f'P8-backlog-{kind}-{n}-{how}'] = p_backlog(kind, n, how)
    if common.tier() == 'thorough':
        progs['P4b-multiport-receive-shuffled'] = p_multi((1, 0))
    progs.update({
        'P1-echo-receive': p_echo('receive'),
        'P1b-echo-poll': p_echo('poll'),
        'P1c-echo-iter_pending': p_echo('iter_pending'),
        'P2-locked-device-bytewise': p_device(),
        'P3-ioport-wrapper': p_ioport(),
        'P3b-ioport-wrapper-iter_pending': p_ioport('iter_pending'),
        'P4-multiport-receive': p_multi(None),
        'P4c-multiport-send': p_multi_send(),
        'P4d-multiport-one-sender-two-receivers': p_multi_order(),
        'P1d-echo-iter_pending-first-only': p_echo('iter_pending_first'),
        'P5-parser-queue': p_queue(),
        'P5b-parser-queue-batch': p_queue(batch=True),
        'P6-echo-same-object-resent': p_reuse(),
        'P6b-echo-same-clock-object-resent': p_reuse_rt('echo'),
        'P7-two-independent-ports': p_two_ports(),
    })
    return progs


SIZE2 = ('P1', 'P5-')


def step_budget(name):
    # line events a thread may execute before it counts as livelocked
    return 30000 if name.startswith('P8') else 3000


def judge(name, exe, obs, choices, violation, outcomes):
    case = {'kind': 'schedule', 'program': name, 'choices': choices}
    if exe.deadlock is not None:
        violation(f'{name}/deadlock', f'{name}: no thread enabled: '
                  f'{exe.deadlock} under schedule {choices}', case)
        return
    if exe.livelock is not None:
        violation(f'{name}/livelock', f'{name}: thread {exe.livelock} exceeded '
                  f'its step budget under schedule {choices}', case)
        return
    for i, e in exe.errors.items():
        violation(f'{name}/uncaught/{type(e).__name__}',
                  f'{name}: thread {i} died with {e!r} under {choices}', case)
        return
    got = []
    for i, res in sorted(exe.results.items()):
        for r in res or []:
            if r[0] == 'raised':
                violation(f'{name}/call-raised/{r[1]}/{r[2]}:{r[3][:40]}',
                          f'{name}: {r[1]}() raised {r[2]}({r[3]!r}) in thread '
                          f'{i} under schedule {choices}', case)
                return
        mine = [r for r in (res or []) if r[0] == 'got']
        only = (obs.get('only_from') or {}).get(i)
        if only is not None and any(m[1] != only for m in mine):
            violation(f'{name}/crossed-ports',
                      f'{name}: thread {i} received {mine} on a port where '
                      f'only sender {only} sends, under {choices}', case)
            return
        # per-receiver order: each sender's messages in the order sent
        for s in {m[1] for m in mine}:
            seq = [m[2] for m in mine if m[1] == s]
            if seq != sorted(seq):
                violation(f'{name}/order',
                          f'{name}: thread {i} received sender {s} as {seq} '
                          f'under {choices}', case)
                return
        got += mine
    if obs.get('drain') is not None:
        # whatever no thread took is still in the port: take it now
        try:
            for m in obs['drain'].iter_pending():
                got.append(('got', m.channel, m.note, m.velocity, m.type))
        except Exception as e:
            violation(f'{name}/drain-raised/{type(e).__name__}',
                      f'{name}: draining after the run raised {e!r} under '
                      f'{choices}', case)
            return
    want = sorted((s, 10 * s + k) for s, k in obs['sent'])
    have = sorted((m[1], m[2]) for m in got)
    bad_content = [m for m in got if m[3] != 64 or m[4] != 'note_on']
    if bad_content:
        violation(f'{name}/not-a-copy-or-corrupt',
                  f'{name}: received {bad_content} (velocity must be 64 as '
                  f'sent; the sender changed its object afterwards) under '
                  f'{choices}', case)
        return
    if have != want:
        kind = 'duplicate' if len(have) > len(set(have)) else (
            'lost-or-mixed' if len(have) <= len(want) else 'extra')
        violation(f'{name}/exactly-once/{kind}',
                  f'{name}: received {have}, sent {want} under schedule '
                  f'{choices}', case)
        return
    outcomes.add(tuple((i, tuple(r for r in res if r[0] == 'got'))
                       for i, res in sorted(exe.results.items())))


def _worker(args):
    key, name, size, bound, root, budget, fbound = args
    mido = common.import_mido()
    install(mido)
    progs = programs(mido, size)
    viols = []
    outcomes = set()
    stats = {}

    def check(exe, obs, choices):
        judge(name, exe, obs, choices,
              lambda k, w, c: viols.append((k, w, c)) if len(viols) < 50
              else None, outcomes)
    try:
        es.explore(progs[name], watched_files(mido, name), bound, check,
                   root=root, stats=stats, max_execs=budget,
                   free_bound=fbound, step_budget=step_budget(name))
    except es.HarnessLost as e:
        return ('lost', key, repr(e), stats, [], 0)
    return ('ok', key, None, stats, viols, len(outcomes), outcomes)


def run():
    mido = common.import_mido()
    install(mido)
    thorough = common.tier() == 'thorough'
    rep = Report(PROP, 'model_checking',
                 'enumeration of all thread schedules with a bounded number '
                 'of preemptions (iterative context bounding) on real '
                 'threads driven by settrace line events')
    # thorough: the same small programs (plus the shuffled MultiPort variant)
    # with one more preemption and one more free-switch deviation; larger
    # programs made the bound-2 tree exceed two hours
    bounds = {}
    meta = {}
    jobs = []
    per_prog = {}
    plan = [(n, n, 1) for n in programs(mido, 1)]
    if thorough:
        # two sends per sender for the programs whose size-2 tree at the
        # quick bounds stays tractable
        plan += [(f'{n}@2', n, 2) for n in programs(mido, 2)
                 if n.startswith(SIZE2)]
    fb_default = int(os.environ.get('VERIF_C10_FBOUND', 3 if thorough else 2))
    for key, pname, size in plan:
        progs = programs(mido, size)
        # thorough: one more preemption where the tree stays tractable
        # (measured at bound 2 with 2 free-switch deviations: P2 205 246
        # schedules / 39 CPU-minutes; P3, P3b, P4, P4c, P4d and P7 each
        # exceed one CPU-hour), one more free-switch deviation everywhere
        bound = 2 if thorough and size == 1 and pname.startswith(
            ('P1', 'P2', 'P5', 'P6')) else 1
        if pname.startswith('P5'):
            bound += 1
        if pname.startswith('P8'):
            bound = 0       # long programs: switches at blocking points only
        fbound = fb_default if size == 1 else 2
        bounds[key] = bound
        meta[key] = (pname, size, fbound)
        name = pname
        # determinism obligation: the default schedule twice, same observation
        watched = watched_files(mido, name)
        e1, o1 = es.run_schedule(progs[name], [], watched, step_budget(name))
        e2, o2 = es.run_schedule(progs[name], [], watched, step_budget(name))
        if (e1.choices, sorted(e1.results.items())) != (
                e2.choices, sorted(e2.results.items())):
            print(f'HARNESS-ERROR: {name} is not deterministic under the '
                  f'default schedule')
            rep._vacuous = True
        per_prog[key] = {'points_default': len(e1.points),
                         'sends_per_sender': size}
        out = set()
        judge(name, e1, o1, list(e1.choices), rep.violation, out)
        rep.add('schedules')
        # one job per first deviation
        for i, p in enumerate(e1.points):
            cost = e1.preemptions_before(i)
            fcost = e1.free_deviations_before(i)
            for alt in range(1, len(p.enabled)):
                if p.running_enabled and cost + 1 > bound:
                    continue
                if not p.running_enabled and fcost + 1 > fbound:
                    continue
                jobs.append((key, name, size, bound, e1.choices[:i] + [alt],
                             JOB_BUDGET, fbound))
    ctx = mp.get_context('fork')
    all_outcomes = {}
    real_samples = [{'program': j[0], 'schedule_prefix': j[4],
                     'meaning': 'index of the chosen thread among the enabled '
                                'ones at each scheduling point (0 = default)'}
                    for j in jobs[::max(1, len(jobs) // 6)]]
    rounds = 0
    with ctx.Pool(common.nproc()) as pool:
      while jobs:
        rounds += 1
        nxt = []
        for r in pool.imap_unordered(_worker, jobs, 1):
            status, name = r[0], r[1]
            if status == 'lost':
                print(f'HARNESS-ERROR: {name}: {r[2]}')
                rep._vacuous = True
                continue
            stats, viols = r[3], r[4]
            for pre in stats.get('leftover', ()):
                nxt.append((name, meta[name][0], meta[name][1], bounds[name],
                            pre, JOB_BUDGET, meta[name][2]))
            rep.add('schedules', stats.get('schedules', 0))
            rep.add('lock_waits', stats.get('lock_waits', 0))
            d = per_prog[name]
            d['schedules'] = d.get('schedules', 1) + stats.get('schedules', 0)
            d['points_max'] = max(d.get('points_max', 0),
                                  stats.get('points_max', 0))
            if stats.get('capped'):
                d['capped'] = True
                rep.coverage['capped'] = True
            for k, w, c in viols:
                rep.violation(k, w, c)
            all_outcomes.setdefault(name, set()).update(r[6])
        jobs = nxt
    rep.coverage['work_sharing_rounds'] = rounds
    for name, d in per_prog.items():
        d['preemption_bound'] = bounds[name]
        d['free_switch_deviation_bound'] = meta[name][2]
        d['distinct_outcomes'] = len(all_outcomes.get(name, ()))
    rep.coverage['programs_detail'] = per_prog
    n = rep.coverage['schedules']
    rep.coverage['states'] = n
    rep.coverage['transitions'] = sum(
        d.get('schedules', 1) * d.get('points_max', d['points_default'])
        for d in per_prog.values())
    rep.coverage['traces_validated_against_impl'] = n
    rep.coverage['evaluations'] = n
    rep.coverage['distinct_nontrivial'] = sum(
        d['distinct_outcomes'] for d in per_prog.values())
    rep.coverage['exhaustive'] = not rep.coverage.get('capped', False)
    for smp in real_samples[:6]:
        rep.sample(smp)
    rep.coverage['rule'] = (
        'programs: ' + ', '.join(per_prog) + ' (one send per sender; "@2": '
        'two sends per sender); for '
        'each, every schedule with at most the stated number of preemptions '
        '(switching away from a thread that could continue) and at most 2 '
        '(3 thorough) non-default choices at free switch points (the running '
        'thread blocked on a lock, slept or finished) is executed. Scheduling points = every statement executed in '
        'mido/ports.py, mido/backends/_parser_queue.py and the device '
        'doubles. Oracle per schedule: no call raised, multiset received == '
        'multiset sent (exactly once), per-sender order per receiver, '
        'received velocity as sent although the sender mutated its object, '
        'no deadlock/livelock. states = schedules executed; transitions = '
        'schedules x scheduling points (upper bound); distinct_nontrivial = '
        'distinct delivery outcomes observed')
    rep.assumptions += [
        'parser/tokenizer internals run atomically (not in the watched set)',
        'interleavings inside one source line are not explored (CPython '
        'bytecode granularity); deque/list operations are single C calls',
        'the property\'s "larger programs sampled" clause is not claimed',
    ]
    rep.require(rep.coverage.get('lock_waits', 0) > 0,
                'no schedule ever made a thread wait for a port lock')
    rep.require(all(d['distinct_outcomes'] >= 2 for k, d in per_prog.items()
                    if not k.startswith(('P3', 'P6', 'P7', 'P8'))),
                'a program showed a single outcome: nothing collided')
    return rep


def check_case(case):
    mido = common.import_mido()
    install(mido)
    out = []
    for size in (1, 2):
        progs = programs(mido, size)
        exe, obs = es.run_schedule(progs[case['program']], case['choices'],
                                   watched_files(mido, case['program']),
                                   step_budget(case['program']))
        judge(case['program'], exe, obs, case['choices'],
              lambda k, w, c=None: out.append((k, w)), set())
        if out:
            break
    return out


def replay(path):
    from ..replay import generic_replay
    return generic_replay(PROP, path, check_case)
