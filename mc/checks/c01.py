"""C01 - the byte codec round-trips every valid message (E1, exhaustive)."""
import json

from .. import common
from ..engine_enum import Acc, run_shards
from ..evidence import Report
from ..ref import midi as ref

PROP = 'C01'
TIMES = (0, 1, -3, 2.5, 1e-9, 2 ** 40)
HEX_SEPS = (' ', '', ':', '\n', ', ')


def _check(mido, type_, attrs, t, thorough):
    """Return None if all clauses hold for this message, else (key, what)."""
    Message = mido.Message
    try:
        m = Message(type_, time=t, **attrs)
    except Exception as e:
        return (f'construct/{type_}/{type(e).__name__}',
                f'Message({type_!r}, {attrs}, time={t!r}) raised {e!r}')
    exp = ref.encode(type_, attrs)
    try:
        b = m.bytes()
    except Exception as e:
        return (f'bytes-raises/{type_}/{type(e).__name__}',
                f'{m!r}.bytes() raised {e!r}')
    if b != exp or type(b) is not list:
        return (f'bytes/{type_}', f'{m!r}.bytes() = {b!r}, reference {exp}')
    for x in b:
        if type(x) is not int:
            return (f'bytes-item-type/{type_}',
                    f'{m!r}.bytes() holds {type(x).__name__}')
    if not (0x80 <= b[0] <= 0xFF) or any(x > 0x7F for x in b[1:-1]) or (
            len(b) > 1 and type_ != 'sysex' and b[-1] > 0x7F):
        return (f'wellformed/{type_}', f'{m!r}.bytes() = {b!r}')
    if type_ == 'sysex' and b[-1] != 0xF7:
        return (f'wellformed/{type_}', f'{m!r}.bytes() = {b!r}')
    if len(m) != len(b):
        return (f'len/{type_}', f'len({m!r}) = {len(m)} but {len(b)} bytes')
    bn = m.bin()
    if type(bn) is not bytearray or bn != bytearray(exp):
        return (f'bin/{type_}', f'{m!r}.bin() = {bn!r}')
    hx = m.hex()
    if hx != ' '.join('%02X' % x for x in exp):
        return (f'hex/{type_}', f'{m!r}.hex() = {hx!r}')

    forms = [('from_bytes(list)', lambda: Message.from_bytes(b, time=t)),
             ('from_bytes(bin)', lambda: Message.from_bytes(bn, time=t)),
             ('from_hex', lambda: Message.from_hex(hx, time=t))]
    if thorough:
        forms += [
            ('from_bytes(bytes)', lambda: Message.from_bytes(bytes(b), time=t)),
            ('from_bytes(tuple)', lambda: Message.from_bytes(tuple(b), time=t)),
        ]
        for sep in HEX_SEPS:
            forms.append((f'from_hex(sep={sep!r})',
                          lambda sep=sep: Message.from_hex(
                              m.hex(sep), time=t, sep=sep or None)))
    # the frozen subclass inherits the codec
    from mido.frozen import FrozenMessage
    try:
        fz = FrozenMessage.from_bytes(b, time=t)
        fz2 = FrozenMessage.from_hex(hx, time=t) if thorough or t else fz
    except Exception as e:
        return (f'frozen-decode-raises/{type_}/{type(e).__name__}',
                f'FrozenMessage.from_bytes/from_hex({exp}, time={t!r}) raised '
                f'{e!r}')
    if type(fz) is not FrozenMessage or vars(fz) != vars(m) or \
            vars(fz2) != vars(m) or fz.bytes() != exp:
        return (f'frozen-decode/{type_}',
                f'FrozenMessage.from_bytes({exp}, time={t!r}) = {fz!r}')
    mv = vars(m)
    for name, fn in forms:
        try:
            m2 = fn()
        except Exception as e:
            return (f'decode-raises/{type_}/{name}/{type(e).__name__}',
                    f'{name} of {exp} raised {e!r}')
        v2 = vars(m2)
        if (type(m2) is not Message or not (m2 == m) or v2 != mv
                or m2.type != type_ or m2.time != t
                or type(m2.time) is not type(t)
                or set(v2) != set(mv)):
            return (f'roundtrip/{type_}/{name}',
                    f'{name} of {exp} (time={t!r}) gave {m2!r}, '
                    f'original {m!r}')
        for k, v in v2.items():
            if k not in ('type', 'time', 'data') and type(v) is not int:
                return (f'roundtrip-type/{type_}/{name}',
                        f'{name} of {exp}: {k} is {type(v).__name__}')
        if type_ == 'sysex':
            if not isinstance(m2.data, tuple) or any(
                    type(x) is not int for x in m2.data):
                return (f'roundtrip-type/{type_}/{name}',
                        f'{name} of {exp}: data = {m2.data!r}')
    # what bytes()/bin() return belongs to the caller: scribbling on it must
    # not change any later encoding (history: encode, mutate result, encode)
    b_copy = list(b)
    b.append(0x55)
    b[0] = 0
    bn.append(1)
    again = m.bytes()
    if again != exp or m.bin() != bytearray(exp) or len(m) != len(exp):
        return (f'encoding-aliased/{type_}',
                f'after mutating the list returned by bytes(), {m!r}.bytes() '
                f'= {again!r}, reference {exp}')
    m4 = Message(type_, **attrs)
    if m4.bytes() != exp:
        return (f'encoding-aliased/{type_}',
                f'after mutating a returned list, a fresh {m4!r}.bytes() = '
                f'{m4.bytes()!r}')
    b = b_copy
    # what from_bytes/from_hex return belongs to the caller too: change the
    # decoded object, decode the same bytes again
    try:
        d1 = Message.from_bytes(b, time=t)
        d1.time = 12345
        if type_ == 'sysex':
            d1.data = (0x55,)
        elif mv.keys() - {'type', 'time'}:
            k0 = sorted(mv.keys() - {'type', 'time'})[0]
            setattr(d1, k0, 0 if mv[k0] else 1)
        d2 = Message.from_bytes(b, time=t)
        d3 = Message.from_hex(hx, time=t)
    except Exception as e:
        return (f'decode-aliased-raises/{type_}/{type(e).__name__}', repr(e))
    if vars(d2) != mv or vars(d3) != mv or d2 is d1:
        return (f'decode-aliased/{type_}',
                f'after changing a message returned by from_bytes({exp}), '
                f'decoding the same bytes again gave {d2!r} / {d3!r}')
    # default time
    m3 = Message.from_bytes(b)
    if m3.time != 0 or vars(m3) != dict(mv, time=0):
        return (f'roundtrip-default-time/{type_}',
                f'from_bytes({exp}) gave {m3!r}')
    return None


SEPS = (' ', '', ':', '-', ',', ', ', '.', '|', '+', '*', '?', '(', ')', '[',
        ']', '\\', '$', '^', '_', '/', 'x', '\n', '\t', '  ', '{', '}', '#',
        '%', '&', '..', '->')


def check_seps(mido, acc):
    """hex(sep) -> from_hex(sep=sep) for every separator, on one message per
    type and length class."""
    from .parser_common import sample_messages
    msgs = list(sample_messages(mido))
    # long messages: counts of separators around 2**k (bulk replace paths)
    msgs += [mido.Message('sysex', data=[(i * 5) & 0x7F for i in range(n)])
             for n in (40, 126, 127, 128, 254, 255, 256, 257, 511, 512, 1023,
                       1024, 5000)]
    for m in msgs:
        for sep in SEPS + (None,):
            if sep is None:
                # the default separator, and whitespace variants of it
                for ws in (' ', '\n', '\t', '\r\n', '  '):
                    acc.evals += 1
                    text = ws.join('%02X' % b for b in m.bytes())
                    try:
                        m2 = mido.Message.from_hex(text)
                        ok = vars(m2) == vars(m)
                    except Exception as e:
                        ok, m2 = False, e
                    if not ok and len(ws) == 1:
                        acc.violation('from_hex-whitespace',
                                      f'from_hex of {len(m.bytes())} bytes '
                                      f'separated by {ws!r} gave {m2!r:.200}',
                                      {'kind': 'sep', 'bytes': m.bytes(),
                                       'sep': ws})
                continue
            acc.evals += 1
            acc.nontrivial += 1
            case = {'kind': 'sep', 'bytes': m.bytes(), 'sep': sep}
            try:
                text = m.hex(sep)
                m2 = mido.Message.from_hex(text, sep=sep)
            except Exception as e:
                acc.violation(f'from_hex-sep-raises/{type(e).__name__}',
                              f'from_hex({m.hex(sep)!r}, sep={sep!r}) raised '
                              f'{e!r}', case)
                continue
            if vars(m2) != vars(m):
                acc.violation('from_hex-sep-differs',
                              f'from_hex({text!r}, sep={sep!r}) = {m2!r}', case)
            if text != sep.join('%02X' % b for b in m.bytes()):
                acc.violation('hex-sep', f'{m!r}.hex({sep!r}) = {text!r}', case)


def worker(shard):
    mido = common.import_mido()
    acc = Acc()
    if shard[0] == 'seps':
        check_seps(mido, acc)
        acc.sample({'separators': list(SEPS)}, cap=1)
        return acc
    kind, type_, arg, thorough, seed = shard
    if kind == 'all':
        gen = ref.all_messages_of(type_, channel=arg)
    else:
        gen = ({'data': tuple(d)} for d in arg)
    i = seed
    for attrs in gen:
        t = TIMES[i % 6]
        i += 1
        try:
            r = _check(mido, type_, attrs, t, thorough)
        except Exception as e:      # the implementation raised somewhere odd
            r = (f'raised/{type_}/{type(e).__name__}',
                 f'checking Message({type_!r}, {attrs}, time={t!r}) raised '
                 f'{e!r}')
        acc.evals += 1
        acc.nontrivial += 1
        if r is not None:
            acc.violation(r[0], r[1], {'type': type_, 'attrs': attrs,
                                       'time': t})
        elif acc.evals == 1 + (seed % 7):
            acc.sample({'type': type_, 'attrs': attrs, 'time': t,
                        'bytes': ref.encode(type_, attrs)})
    return acc


def sysex_payloads(thorough, seed):
    import itertools
    extra = 1 + (seed * 37) % 126
    alpha = (0, 1, 0x40, 0x7F)
    out = []
    for n in range(0, 5):
        out.extend(itertools.product(alpha, repeat=n))
    for pos in range(3):
        for v in range(128):
            p = [extra, extra, extra]
            p[pos] = v
            out.append(tuple(p))
    lengths = [127, 128, 129, 1000]
    if thorough:
        lengths += [16383, 16384, 16385, 100000]
        for n in range(5, 8):
            out.extend(itertools.product((0, 0x7F, extra), repeat=n))
    for n in lengths:
        out.append(tuple((i * 7 + extra) & 0x7F for i in range(n)))
        out.append((0x7F,) * n)
    return out


def shards(thorough, seed):
    out = []
    for type_ in ref.CHANNEL:
        for ch in range(16):
            out.append(('all', type_, ch, thorough, seed))
    for type_ in ref.SYSTEM:
        if type_ != 'sysex':
            out.append(('all', type_, None, thorough, seed))
    out.append(('seps',))
    pl = sysex_payloads(thorough, seed)
    step = max(1, len(pl) // 8)
    for i in range(0, len(pl), step):
        out.append(('sysex', 'sysex', pl[i:i + step], thorough, seed))
    return out


def run():
    common.import_mido()
    thorough = common.tier() == 'thorough'
    rep = Report(PROP, 'exploration',
                 'exhaustive enumeration of the message space against a '
                 'reference codec')
    run_shards(worker, shards(thorough, common.seed()), rep)
    rep.coverage['exhaustive'] = True
    rep.coverage['rule'] = (
        'every message type x every in-range attribute combination '
        '(1 331 463 non-sysex messages) + sysex payloads over a class '
        'alphabet, every single value 0..127 at each position of a length-3 '
        'payload and boundary lengths; each case is a distinct message, '
        'constructed, encoded (bytes/bin/hex/len compared with a reference '
        'encoder) and decoded back through from_bytes/from_hex with a '
        'time value from ' + repr(TIMES) + '; all cases are non-trivial '
        '(every one exercises encode and decode)')
    rep.assumptions += [
        'sysex payload contents beyond the class alphabet {0,1,0x40,0x7F,'
        'seed-extra} and lengths beyond those listed are treated uniformly',
        'time values limited to ' + repr(TIMES),
    ]
    rep.require(rep.coverage['evaluations'] >= 1331463,
                'fewer cases than the non-sysex message space')
    return rep


def check_case(case):
    mido = common.import_mido()
    if case.get('kind') == 'sep':
        acc = Acc()
        check_seps(mido, acc)
        return [(k, v[0][1]) for k, v in acc.viol.items()]
    attrs = dict(case['attrs'])
    if 'data' in attrs:
        attrs['data'] = tuple(attrs['data'])
    r = _check(mido, case['type'], attrs, case['time'], True)
    return [] if r is None else [r]


def replay(path):
    from ..replay import generic_replay
    return generic_replay(PROP, path, check_case)
