"""Oracles shared by C04, C05, C06 (and C18): the statements of the
properties applied directly to (input bytes, yielded messages)."""
from ..ref import midi as ref

# one representative per byte class
ALPHA15 = (0x00, 0x7F, 0x90, 0xC5, 0xE3, 0xF0, 0xF1, 0xF2, 0xF3, 0xF4, 0xF6,
           0xF7, 0xF8, 0xF9, 0xFF)
ALPHA9 = (0x01, 0x7F, 0x92, 0xC5, 0xF0, 0xF2, 0xF7, 0xF8, 0xF4)
RT_DEFINED = tuple(ref.REALTIME_STATUS)
RT_UNDEFINED = (0xF9, 0xFD)


def msg_sig(m):
    """Comparable signature of a message (type + full vars)."""
    return (type(m).__name__, tuple(sorted(
        (k, (tuple(v) if isinstance(v, tuple) else v))
        for k, v in vars(m).items())))


def sigs(msgs):
    return [msg_sig(m) for m in msgs]


def stream_oracle(mido, data, msgs):
    """C04 applied to one stream.  Return None or (key, what)."""
    rt_out = []
    other = []
    for m in msgs:
        if type(m) is not mido.Message:
            return ('not-a-message', f'yielded {m!r}')
        bad = ref.valid_message_vars(vars(m))
        if bad:
            return ('invalid-message', f'yielded invalid message {m!r}: {bad}')
        if m.type in ref.REALTIME:
            rt_out.append(m.type)
        else:
            other.append(m)
    rt_in = [ref.REALTIME_STATUS[b] for b in data if b in ref.REALTIME_STATUS]
    if rt_out != rt_in:
        return ('realtime-mismatch',
                f'real-time messages {rt_out} for real-time bytes {rt_in}')
    pos = 0
    n = len(data)
    for m in other:
        exp = ref.encode(m.type, vars(m))
        for b in exp:
            while pos < n and data[pos] != b:
                pos += 1
            if pos >= n:
                return ('not-a-subsequence',
                        f'bytes of {m!r} are not, in order, a subsequence of '
                        f'the input (invented, duplicated or reordered)')
            pos += 1
    return None


def hexs(data):
    data = list(data)
    if len(data) > 40:
        return (' '.join('%02X' % b for b in data[:16]) + f' ...({len(data)} bytes)... '
                + ' '.join('%02X' % b for b in data[-8:]))
    return ' '.join('%02X' % b for b in data)


def sample_messages(mido):
    """~30 messages: one per type and per length class, both channel nibbles,
    pitch extremes, sysex payloads 0..3."""
    M = mido.Message
    return [
        M('note_off', channel=0, note=0, velocity=0),
        M('note_off', channel=15, note=127, velocity=127),
        M('note_on', channel=0, note=60, velocity=64),
        M('note_on', channel=9, note=1, velocity=0),
        M('polytouch', channel=3, note=5, value=6),
        M('control_change', channel=1, control=123, value=0),
        M('program_change', channel=0, program=0),
        M('program_change', channel=15, program=127),
        M('aftertouch', channel=7, value=99),
        M('pitchwheel', channel=0, pitch=-8192),
        M('pitchwheel', channel=15, pitch=8191),
        M('pitchwheel', channel=4, pitch=0),
        M('sysex', data=()),
        M('sysex', data=(0,)),
        M('sysex', data=(1, 127)),
        M('sysex', data=(5, 0, 127)),
        M('quarter_frame', frame_type=7, frame_value=15),
        M('quarter_frame', frame_type=0, frame_value=0),
        M('songpos', pos=0),
        M('songpos', pos=16383),
        M('song_select', song=0),
        M('song_select', song=127),
        M('tune_request'),
        M('clock'), M('start'), M('continue'), M('stop'),
        M('active_sensing'), M('reset'),
    ]


INVALID_ITEMS = (256, 'x')


def reject_probe(mido, A, B, C, bad, violation, tag):
    """feed(A); feed(B + [bad]) is rejected; feed(C).  The statement does not
    say whether the valid part of a rejected chunk is consumed, so both
    readings are accepted - parse(A+B+C) or parse(A+C) - but nothing else:
    no exception from the valid feeds, no lost parser state, no invalid
    message.  Returns number of runs."""
    case = {'kind': 'reject', 'A': list(A), 'B': list(B), 'C': list(C),
            'bad': repr(bad)}
    p = mido.Parser()
    got = []
    try:
        if A:
            p.feed(list(A))
            got.extend(p)
    except Exception as e:
        violation(f'{tag}/valid-feed-raised/{type(e).__name__}',
                  f'feed({hexs(A)}) raised {e!r}', case)
        return
    try:
        p.feed(list(B) + [bad])
    except (TypeError, ValueError):
        pass
    except Exception as e:
        violation(f'{tag}/rejected-with/{type(e).__name__}',
                  f'feed({hexs(B)} + [{bad!r}]) raised {e!r}', case)
        return
    else:
        violation(f'{tag}/invalid-element-accepted',
                  f'feed({hexs(B)} + [{bad!r}]) did not raise', case)
        return
    try:
        got.extend(p)
        if C:
            p.feed(list(C))
        got.extend(p)
    except Exception as e:
        violation(f'{tag}/valid-feed-after-rejection-raised/{type(e).__name__}',
                  f'feed({hexs(A)}); feed({hexs(B)} + [{bad!r}]) rejected; then '
                  f'feed({hexs(C)}) / retrieval raised {e!r}', case)
        return
    allowed = (sigs(mido.parse_all(list(A) + list(B) + list(C))),
               sigs(mido.parse_all(list(A) + list(C))))
    if sigs(got) not in allowed:
        violation(f'{tag}/state-lost-after-rejection',
                  f'feed({hexs(A)}); feed({hexs(B)} + [{bad!r}]) rejected; '
                  f'feed({hexs(C)}) gave {got!r}; expected the parse of A+B+C '
                  f'{allowed[0]} or of A+C {allowed[1]}', case)


def long_streams(mido):
    """Deterministic long inputs: many messages in one stream, long sysex at
    power-of-two sizes, long runs of one status.  (stream bytes, label)"""
    msgs = sample_messages(mido)
    out = []
    for reps in (3, 23, 70):            # 87, 667, 2030 messages
        data = []
        for r in range(reps):
            for i, m in enumerate(msgs):
                data += m.bytes()
        out.append((data, f'{reps}x all sample messages'))
    for n in (63, 64, 65, 127, 128, 129, 255, 256, 257, 1000, 1022, 1023, 1024,
              1025, 4095, 4096, 4097, 65535, 65536):
        out.append(([0xF0] + [(i * 3) & 0x7F for i in range(n)] + [0xF7, 0xF8],
                    f'sysex with {n} data bytes'))
    for n in (60, 63, 64, 70, 200, 1100):
        # a long sysex with real-time bytes inside, cut short by another
        # status byte (bulk paths for long runs live here)
        out.append(([0xF0] + [1] * n + [0xF8] + [0xF0, 1, 2, 0xF7],
                    f'sysex of {n} with a clock, restarted by F0'))
        out.append(([0xF0] + [1] * n + [0xF8] + [0x90, 1, 2] + [3] * n + [0xF7],
                    f'sysex of {n} with a clock, aborted by note_on'))
        out.append(([0xF0] + [1] * n + [0xFA, 0xF8, 0xFF] + [0xF4] + [2] * n
                    + [0xF7], f'sysex of {n} with real-time bytes and F4'))
    for n in (64, 65, 66, 200, 1000):
        out.append(([0x92, 1, 2] * n, f'{n} equal note_on messages'))
        out.append(([0xF8] * n + [0x90, 5] + [0xF8] * 3 + [6],
                    f'{n} clocks then an interrupted note'))
        out.append(([0xC3, 7] * n + [0xF6] * n, f'{n} program changes then '
                    f'{n} tune requests'))
    return out
