"""C12 - merge_tracks keeps every event at its absolute time (E1)."""
import itertools

from .. import common
from ..engine_enum import Acc, run_shards
from ..evidence import Report

PROP = 'C12'
KINDS = ('note', 'tempo', 'unknown', 'eot')
DELTAS = (0, 1, 2)
SYMBOLS = tuple((k, d) for k in KINDS for d in DELTAS)     # 12


def seqs_upto(n):
    for k in range(n + 1):
        yield from itertools.product(SYMBOLS, repeat=k)


def fresh_str(text):
    """An equal but not interned string object (what json/pickle produce)."""
    return ''.join(list(text))


VARIANT = ['plain']       # 'plain' | 'rebuilt' | 'frozen'


def build_track(mido, ti, spec):
    t = _build_track(mido, ti, spec)
    if VARIANT[0] == 'rebuilt':
        # messages reconstructed from their dict form with fresh strings
        out = mido.MidiTrack()
        for m in t:
            d = {fresh_str(k): (fresh_str(v) if isinstance(v, str) else v)
                 for k, v in vars(m).items()}
            if m.type == 'unknown_meta':
                out.append(mido.UnknownMetaMessage(
                    d['type_byte'], data=d['data'], time=d['time']))
            else:
                out.append(type(m).from_dict(d))
        return out
    if VARIANT[0] == 'frozen':
        from mido.frozen import freeze_message
        return mido.MidiTrack(freeze_message(m) for m in t)
    return t


def _build_track(mido, ti, spec):
    t = mido.MidiTrack()
    for pos, (kind, delta) in enumerate(spec):
        ident = ti * 4096 + pos
        if kind == 'note':
            m = mido.Message('note_on', note=ident & 127,
                             velocity=(ident >> 7) & 127,
                             channel=(ident >> 14) & 15, time=delta)
        elif kind == 'tempo':
            m = mido.MetaMessage('set_tempo', tempo=1000 + ident, time=delta)
        elif kind == 'unknown':
            m = mido.UnknownMetaMessage(0x60, data=(ti, pos & 255, pos >> 8),
                                        time=delta)
        else:
            m = mido.MetaMessage('end_of_track', time=delta)
        t.append(m)
    return t


def sig_no_time(m):
    d = dict(vars(m))
    d.pop('time')
    return (type(m).__name__.replace('Frozen', ''), tuple(sorted(d.items())))


def expected(tracks):
    ev = []
    total = 0
    for ti, tr in enumerate(tracks):
        now = 0
        for idx, m in enumerate(tr):
            now += m.time
            if m.type != 'end_of_track':
                ev.append((now, ti, idx, sig_no_time(m)))
        total = max(total, now)
    ev.sort(key=lambda e: (e[0], e[1], e[2]))
    return [(e[0], e[3]) for e in ev], total


def snapshot(tracks):
    return [[(id(m), type(m).__name__, tuple(sorted(vars(m).items())))
             for m in tr] for tr in tracks]


def check_one(mido, specs, acc, via_file, long=None):
    if acc.evals % 97 == 0:
        failed_merge(mido, acc)
    if VARIANT[0] == 'plain':
        acc.ncase = getattr(acc, 'ncase', 0) + 1
    if VARIANT[0] == 'plain' and any(specs) and (
            acc.ncase % 4 == 0 if long is None
            else len(specs[0]) * len(specs) <= 400):
        # the same case with messages rebuilt from dicts (fresh, not interned
        # strings) and with frozen messages
        for v in ('rebuilt', 'frozen', 'shared'):
            VARIANT[0] = v
            try:
                check_one(mido, specs, acc, via_file, long)
            finally:
                VARIANT[0] = 'plain'
    tracks = [build_track(mido, ti, sp) for ti, sp in enumerate(specs)]
    if VARIANT[0] == 'shared' and tracks:
        # shared objects: the first message once more in its track, and the
        # first track once more in the list
        if len(tracks[0]):
            tracks[0].append(tracks[0][0])
        tracks.append(tracks[0])
    exp, total = expected(tracks)
    snap = snapshot(tracks)
    lens = [len(t) for t in tracks]
    if long is None:
        case = {'tracks': [[list(s) for s in sp] for sp in specs],
                'variant': VARIANT[0]}
        shown = specs
    else:
        case = {'long': list(long), 'variant': VARIANT[0]}
        shown = (f'{long[0]} tracks of {long[1]} events, deltas {long[2]!r}, '
                 f'kinds {long[3]!r}')
    variants = [('skip_checks=False', lambda: mido.merge_tracks(tracks)),
                ('skip_checks=True',
                 lambda: mido.merge_tracks(tracks, skip_checks=True))]
    # less-travelled argument forms: a generator / tuple of tracks, tracks
    # that are plain lists or tuples of messages (rotating, one per case)
    alt = ((('generator-of-tracks',
             lambda: mido.merge_tracks(t for t in tracks)),),
           (('tuple-of-tracks', lambda: mido.merge_tracks(tuple(tracks))),),
           (('tracks-as-lists',
             lambda: mido.merge_tracks([list(t) for t in tracks])),),
           (('tracks-as-tuples+skip_checks',
             lambda: mido.merge_tracks(iter([tuple(t) for t in tracks]),
                                       skip_checks=True)),),
           ())[getattr(acc, 'ncase', 0) % 5]
    variants += list(alt)
    if via_file:
        variants.append(('MidiFile.merged_track',
                         lambda: mido.MidiFile(type=1, tracks=tracks).merged_track))
    for name, fn in variants:
        acc.evals += 1
        try:
            res = fn()
        except Exception as e:
            acc.violation(f'raises/{name}/{type(e).__name__}',
                          f'{name} on {shown} raised {e!r}', dict(case, via=name))
            continue
        key = None
        if not isinstance(res, mido.MidiTrack):
            key, what = 'not-a-track', f'result is {type(res)}'
        elif len(res) == 0 or res[-1].type != 'end_of_track':
            key, what = 'no-final-eot', f'result {list(res)!r}'
        elif any(m.type == 'end_of_track' for m in res[:-1]):
            key, what = 'inner-eot', f'result {list(res)!r}'
        else:
            now = 0
            got = []
            neg = False
            for m in res:
                if m.time < 0:
                    neg = True
                now += m.time
                if m.type != 'end_of_track':
                    got.append((now, sig_no_time(m)))
            if neg:
                key, what = 'negative-delta', f'result {list(res)!r}'
            elif got != exp:
                if sorted(got, key=repr) == sorted(exp, key=repr):
                    key = 'order'
                elif [g[1] for g in got] == [e[1] for e in exp]:
                    key = 'absolute-time'
                else:
                    key = 'content'
                what = f'result events {got} != expected {exp}'
            elif now != total:
                key, what = 'total-duration', (
                    f'total {now} != longest input track {total}')
        if key is None and (snapshot(tracks) != snap
                            or [len(t) for t in tracks] != lens):
            key, what = 'input-modified', 'input tracks/messages changed'
        if key is not None:
            acc.violation(f'{key}/{name}' + ('' if VARIANT[0] == 'plain'
                                             else '/' + VARIANT[0]),
                          f'{name} on {VARIANT[0]} tracks {shown}: {what[:700]}',
                          dict(case, via=name))
    # history: merge, change one delta IN PLACE (same track and message
    # objects), merge again - the second result must follow the edit
    if any(tracks) and not acc.viol and VARIANT[0] != 'frozen' and (
            long is None or len(specs[0]) * len(specs) <= 400):
        for name, fn in variants:
            try:
                fn()
                victim = next(t for t in tracks if len(t))[0]
                victim.time = victim.time + 3
                exp2, total2 = expected(tracks)
                res = fn()
                now = 0
                got = []
                for m in res:
                    now += m.time
                    if m.type != 'end_of_track':
                        got.append((now, sig_no_time(m)))
                if got != exp2 or now != total2:
                    acc.violation(f'stale-after-in-place-edit/{name}',
                                  f'{name} on tracks {shown}: merged, first '
                                  f'delta += 3 in place, merged again: events '
                                  f'{str(got)[:300]} total {now}, expected '
                                  f'{str(exp2)[:300]} total {total2}',
                                  dict(case, via=name))
                victim.time = victim.time - 3
            except Exception as e:
                acc.violation(f'stale-probe-raises/{name}/{type(e).__name__}',
                              f'{e!r}', dict(case, via=name))
            acc.evals += 1
    multi = sum(1 for sp in specs if sp) >= 2 or any(
        k == 'eot' for sp in specs for k, _ in sp[:-1])
    if multi:
        acc.nontrivial += 1


def failed_merge(mido, acc):
    """A merge that raises part-way (a message that does not pass the checks
    in the second track) must leave nothing behind for later merges."""
    good = build_track(mido, 0, (('note', 1), ('tempo', 2)))
    bad = mido.MidiTrack([mido.Message('note_on', note=5, time=1),
                          mido.Message('note_on', note=300, time=1,
                                       skip_checks=True)])
    acc.evals += 1
    for tracks in ([good, bad], [bad, good], [bad]):
        try:
            mido.merge_tracks(tracks)
        except Exception:
            acc.count('failed_merges')
        else:
            pass       # accepting it is not this property's business


DELTA_FAMILIES = {
    'zero': lambda ti, pos: 0,
    'one': lambda ti, pos: 1,
    'same480': lambda ti, pos: 480,
    'alt': lambda ti, pos: (0, 5)[pos % 2],
    'inc': lambda ti, pos: pos,
    'big': lambda ti, pos: 2 ** 20 + ti,
    'mixed': lambda ti, pos: (ti * 7 + pos * 3) % 4,
    'per-track': lambda ti, pos: ti,
    'late-start': lambda ti, pos: 1000 * ti if pos == 0 else 2,
}
KIND_FAMILIES = {
    'notes': lambda ti, pos, n: 'note',
    'cycle': lambda ti, pos, n: 'eot' if pos == n - 1 else KINDS[(pos + ti) % 3],
    'eot-mid': lambda ti, pos, n: 'eot' if pos in (n // 2, n - 1) else 'note',
    'same-tempo': lambda ti, pos, n: 'tempo' if pos % 2 else 'note',
}
LONG_K = (1, 2, 3, 4, 5, 6, 8, 9, 16, 17, 33)
LONG_L = (5, 6, 7, 8, 10, 16, 17, 50, 257, 1000)


def long_spec(k, n, df, kf):
    d, kd = DELTA_FAMILIES[df], KIND_FAMILIES[kf]
    return [tuple((kd(ti, pos, n), d(ti, pos)) for pos in range(n))
            for ti in range(k)]


def worker(shard):
    mido = common.import_mido()
    acc = Acc()
    failed_merge(mido, acc)
    kind = shard[0]
    if kind == 'long':
        k, df = shard[1], shard[2]
        cap = 4500 if common.tier() == 'thorough' else 2600
        for n in LONG_L:
            if k * n > cap:
                continue
            if True:
                for kf in KIND_FAMILIES:
                    check_one(mido, long_spec(k, n, df, kf), acc, k * n <= 600,
                              long=(k, n, df, kf))
        acc.sample({'tracks': k, 'lengths': list(LONG_L),
                    'delta_families': list(DELTA_FAMILIES),
                    'kind_families': list(KIND_FAMILIES)}, cap=1)
        return acc
    if kind == 'one':
        first, n = shard[1], shard[2]
        for rest in seqs_upto(n - 1):
            check_one(mido, [(first,) + rest], acc, True)
    elif kind == 'two':
        t0, n = shard[1], shard[2]
        for t1 in seqs_upto(n):
            check_one(mido, [t0, t1], acc, len(t0) + len(t1) <= 3)
    elif kind == 'three':
        t0, n = shard[1], shard[2]
        for t1 in seqs_upto(n):
            for t2 in seqs_upto(n):
                check_one(mido, [t0, t1, t2], acc, False)
    elif kind == 'misc':
        check_one(mido, [], acc, True)
        check_one(mido, [()], acc, True)
        check_one(mido, [(), ()], acc, True)
        # larger deltas / many equal times
        big = (('note', 2), ('note', 0), ('eot', 2), ('note', 0), ('tempo', 1))
        for t1 in seqs_upto(2):
            check_one(mido, [big, t1, big], acc, True)
    acc.sample({'tracks': shard[1] if kind != 'misc' else 'misc'}, cap=1)
    return acc


def run():
    common.import_mido()
    thorough = common.tier() == 'thorough'
    rep = Report(PROP, 'exploration',
                 'exhaustive enumeration of track lists over a 12-symbol '
                 'event alphabet against an independent absolute-time oracle')
    n1, n2, n3 = (5, 3, 2) if thorough else (4, 2, 1)
    shards = [('misc',)]
    shards += [('one', s, n1) for s in SYMBOLS]
    shards += [('two', t0, n2) for t0 in seqs_upto(n2)]
    shards += [('three', t0, n3) for t0 in seqs_upto(n3)]
    shards += [('long', k, df) for k in LONG_K for df in DELTA_FAMILIES]
    run_shards(worker, shards, rep)
    rep.coverage['exhaustive'] = True
    rep.coverage['rule'] = (
        f'track lists over events {{note (uniquely numbered), set_tempo, '
        f'unknown meta, end_of_track}} x delta {{0,1,2}}: every single track '
        f'of length <= {n1}, every pair of tracks of length <= {n2} each, '
        f'every triple of length <= {n3} each, plus empty lists/tracks; each '
        f'with skip_checks False/True (and through MidiFile.merged_track); '
        f'plus long cases: {list(LONG_K)} tracks x {list(LONG_L)} events each '
        f'(<= 2600 events in all, 4500 thorough) x {len(DELTA_FAMILIES)} delta patterns x '
        f'{len(KIND_FAMILIES)} event-kind patterns. '
        f'Oracle: absolute tick of every non-EOT message, order by (tick, '
        f'track, index), single final EOT, total = longest track, inputs '
        f'unmodified (vars and identity snapshot). Non-trivial = >= 2 '
        f'non-empty tracks or an end_of_track before the end of a track')
    rep.assumptions += ['deltas limited to {0,1,2}; larger deltas behave alike']
    return rep


def check_case(case):
    mido = common.import_mido()
    acc = Acc()
    long = tuple(case['long']) if 'long' in case else None
    if long:
        specs = long_spec(*long)
    else:
        specs = [tuple(tuple(s) for s in sp) for sp in case['tracks']]
    VARIANT[0] = case.get('variant', 'plain')
    try:
        check_one(mido, specs, acc, True, long)
    finally:
        VARIANT[0] = 'plain'
    return [(k, v[0][1]) for k, v in acc.viol.items()]


def replay(path):
    from ..replay import generic_replay
    return generic_replay(PROP, path, check_case)
