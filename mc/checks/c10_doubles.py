"""Device doubles for C10.  This file is in the *watched* set of the schedule
explorer: every statement below is a scheduling point, so a port that does
not serialise _send/_receive shows byte-wise mixing."""


def make(mido):
    ports = mido.ports

    class ByteDouble(ports.BaseIOPort):
        """Writes/reads a shared byte wire one byte per statement."""

        def _open(self, wire_out=None, wire_in=None, **kwargs):
            self.wire_out = wire_out
            self.wire_in = wire_in

        def _send(self, msg):
            for byte in msg.bytes():
                self.wire_out.append(byte)

        def _receive(self, block=True):
            while self.wire_in:
                byte = self.wire_in.pop(0)
                self._parser.feed_byte(byte)

    class ByteInput(ports.BaseInput):
        def _open(self, wire_in=None, **kwargs):
            self.wire_in = wire_in

        def _receive(self, block=True):
            while self.wire_in:
                byte = self.wire_in.pop(0)
                self._parser.feed_byte(byte)

    class ByteOutput(ports.BaseOutput):
        def _open(self, wire_out=None, **kwargs):
            self.wire_out = wire_out

        def _send(self, msg):
            for byte in msg.bytes():
                self.wire_out.append(byte)

    return ByteDouble, ByteInput, ByteOutput
