"""C17 - text encoding follows the file charset and never leaks out of a call
(E3: fault enumeration over every failure point of load and save)."""
import io
import itertools

from .. import common
from ..engine_enum import Acc, run_shards
from ..evidence import Report
from ..ref import meta as rm
from ..ref import smf
from .smf_common import load_bytes, make, save_bytes, short

PROP = 'C17'
CHARSETS = ('latin1', 'utf-8', 'cp1252', 'shift_jis', 'utf-16', 'ascii',
            'utf-16-le', 'cp437')
TEXTS = ('', 'abc', '\xe9', '€', 'あ', 'x' * 128, 'a\xe9€',
         'あ' * 50, '\x00\x7f',
         # long texts: multi-byte characters at every alignment across any
         # block boundary (1 KiB, 4 KiB, 64 KiB)
         'あ' * 1000, 'a' + 'あ' * 1000, 'ab' + 'あ' * 1000,
         '\xe9' * 3000, 'a' + '\xe9' * 3000, '€' * 2000, 'q€' * 1500,
         ('a\xe9€あ' * 9000), 'x' * 70000)
LONG_TEXT_FROM = 9          # index of the first long text
OUTERS = (None, 'cp1252', 'utf-8', 'utf-16', 'latin1')


def encodable(text, cs):
    try:
        text.encode(cs)
        return True
    except UnicodeError:
        return False


class Ambient:
    """The charset in force around the call under test: the default, or an
    outer meta_charset block owned by the harness."""

    def __init__(self, mido, outer):
        self.outer = outer
        self.cs = outer or 'latin1'
        self.cm = None
        self.mido = mido

    def __enter__(self):
        if self.outer:
            from mido.midifiles.meta import meta_charset
            self.cm = meta_charset(self.outer)
            self.cm.__enter__()
        return self

    def __exit__(self, *a):
        if self.cm is not None:
            self.cm.__exit__(None, None, None)
        return False

    def probe(self):
        """Observable charset in force right now, through the public message
        API only: encode a text and decode a byte."""
        MM = self.mido.MetaMessage
        out = []
        for ch in ('\xe9', '€'):
            try:
                out.append(tuple(MM('text', text=ch).bytes()))
            except Exception as e:
                out.append(type(e).__name__)
        try:
            out.append(MM.from_bytes([0xFF, 0x01, 0x01, 0xE9]).text)
        except Exception as e:
            out.append(type(e).__name__)
        return out

    def expected(self):
        out = []
        for ch in ('\xe9', '€'):
            try:
                p = list(ch.encode(self.cs))
                out.append(tuple([0xFF, 0x01] + rm.vlq(len(p)) + p))
            except UnicodeError:
                out.append('UnicodeEncodeError')
        try:
            out.append(bytes([0xE9]).decode(self.cs))
        except UnicodeError:
            out.append('UnicodeDecodeError')
        return out


def after_call(amb, acc, what, phase, case):
    got = amb.probe()
    exp = amb.expected()
    if got != exp:
        acc.violation(f'leak/{phase}/{what}',
                      f'after {phase} {what} (ambient charset {amb.cs}): '
                      f'MetaMessage text codec now behaves as {got}, expected '
                      f'{exp}', case)
        # put it back so that one leak is not reported for every later case
        import mido.midifiles.meta as meta
        meta._charset = amb.cs
        return False
    return True


def register_custom_spec():
    """docs/meta_message_types.rst: a text-carrying custom meta message whose
    spec imports encode_string/decode_string from mido.midifiles.meta."""
    import mido.midifiles.meta as meta
    if 'program_name' in meta._META_SPEC_BY_TYPE:
        return
    from mido.midifiles.meta import (MetaSpec, add_meta_spec, decode_string,
                                     encode_string)

    class MetaSpec_program_name(MetaSpec):
        type_byte = 0x08
        attributes = ['name']
        defaults = ['']

        def decode(self, message, data):
            message.name = decode_string(data)

        def encode(self, message):
            return encode_string(message.name)

    add_meta_spec(MetaSpec_program_name)
    rm.TABLE['program_name'] = (0x08, [('name', 'str', None, None, '')])


def text_file(mido, cs, text, type_name):
    attr = rm.attrs_of(type_name)[0]
    tr = mido.MidiTrack([
        mido.Message('note_on', note=1, time=1),
        mido.MetaMessage(type_name, time=2, **{attr: text}),
        mido.Message('note_off', note=1, time=3),
    ])
    return mido.MidiFile(type=1, ticks_per_beat=96, charset=cs, tracks=[tr])


def check_roundtrip(mido, cs, text, type_name, outer, acc):
    acc.evals += 1
    acc.nontrivial += 1
    case = {'kind': 'roundtrip', 'charset': cs, 'text': text,
            'type': type_name, 'outer': outer}
    with Ambient(mido, outer) as amb:
        mf = text_file(mido, cs, text, type_name)
        try:
            data = save_bytes(mf)
        except Exception as e:
            acc.violation(f'save-raises/{cs}/{type(e).__name__}',
                          f'saving {text!r} as {cs} raised {e!r}', case)
            after_call(amb, acc, 'save-error', 'save', case)
            return
        if not after_call(amb, acc, 'success', 'save', case):
            return
        try:
            dec = smf.decode_file(data)
            ev = dec['tracks'][0]['events'][1][1]
            want = ('meta', rm.TABLE[type_name][0], tuple(text.encode(cs)))
            if ev != want:
                acc.violation(f'bytes-not-in-charset/{cs}',
                              f'{text!r} saved with charset {cs}: payload '
                              f'{bytes(ev[2])!r}, expected {text.encode(cs)!r}',
                              case)
        except smf.SMFError as e:
            acc.violation('saved-file-not-conformant', f'{e}', case)
        try:
            back = load_bytes(mido, data, charset=cs)
            m = back.tracks[0][1]
            attr = rm.attrs_of(type_name)[0]
            if getattr(m, attr) != text or m.type != type_name:
                acc.violation(f'text-changed/{cs}',
                              f'{text!r} with charset {cs} loaded back as '
                              f'{getattr(m, attr)!r}', case)
        except Exception as e:
            acc.violation(f'load-raises/{cs}/{type(e).__name__}',
                          f'loading {text!r} saved as {cs} raised {e!r}', case)
        after_call(amb, acc, 'success', 'load', case)


class FailingFile(io.BytesIO):
    def __init__(self, fail_at):
        super().__init__()
        self.n = 0
        self.fail_at = fail_at

    def write(self, b):
        self.n += 1
        if self.n == self.fail_at:
            raise OSError('disk full (injected)')
        return super().write(b)


def check_load_faults(mido, cs, text, outer, acc):
    mf = text_file(mido, cs, text, 'text')
    mf.tracks[0].append(mido.MetaMessage('marker', text=text, time=0))
    data = save_bytes(mf)
    with Ambient(mido, outer) as amb:
        faults = [('truncate', cut, None) for cut in range(len(data))]
        track_start = data.index(b'MTrk') + 8
        for pos in range(track_start, len(data)):
            faults.append(('set', pos, 0xFF))
            faults.append(('set', pos, 0x80))
        faults.append(('set', data.index(b'MTrk'), 0x58))
        faults.append(('set', 0, 0x58))
        for kind, pos, val in faults:
            if kind == 'truncate':
                bad = data[:pos]
            else:
                bad = data[:pos] + bytes([val]) + data[pos + 1:]
            acc.evals += 1
            case = {'kind': 'load-fault', 'charset': cs, 'text': text,
                    'outer': outer, 'fault': [kind, pos, val]}
            try:
                load_bytes(mido, bad, charset=cs)
                outcome = 'success'
            except Exception as e:
                outcome = f'error:{type(e).__name__}'
                acc.nontrivial += 1
                acc.count('load_faults_that_failed')
                # probe while the exception (and any frame or generator it
                # keeps alive) still exists: a restore that only happens when
                # a context-manager generator is garbage collected is a leak
                after_call(amb, acc, 'raised', 'load',
                           dict(case, outcome=outcome, inside_handler=True))
            what = 'success' if outcome == 'success' else 'raised'
            after_call(amb, acc, what, 'load', dict(case, outcome=outcome))


def check_save_faults(mido, cs, outer, acc):
    M, MM = mido.Message, mido.MetaMessage
    with Ambient(mido, outer) as amb:
        base = [M('note_on', note=1, time=0),
                MM('text', text='ok', time=1),
                M('note_off', note=1, time=2),
                MM('marker', text='m', time=0)]
        bads = [('float-time', lambda: M('note_on', time=1.5)),
                ('negative-time', lambda: MM('text', text='t', time=-1)),
                ('realtime', lambda: M('clock')),
                ('unencodable', lambda: MM('text', text='あ€\xe9'
                                           if cs not in ('utf-8', 'utf-16',
                                                         'utf-16-le')
                                           else '\udc80'))]
        for name, mk in bads:
            for n in range(len(base) + 1):
                msgs = [m.copy() for m in base]
                msgs.insert(n, mk())
                for tracks_before in (0, 1):
                    tracks = [mido.MidiTrack(m.copy() for m in base)
                              for _ in range(tracks_before)]
                    tracks.append(mido.MidiTrack(msgs))
                    mf = mido.MidiFile(type=1, charset=cs, tracks=tracks)
                    acc.evals += 1
                    case = {'kind': 'save-fault', 'charset': cs,
                            'outer': outer, 'fault': name, 'position': n,
                            'tracks_before': tracks_before}
                    try:
                        save_bytes(mf)
                        outcome = 'success'
                    except Exception as e:
                        outcome = 'raised'
                        acc.nontrivial += 1
                        acc.count('save_faults_that_failed')
                        after_call(amb, acc, outcome, 'save',
                                   dict(case, inside_handler=True))
                    after_call(amb, acc, outcome, 'save', case)
        # the output file fails on its k-th write
        mf = mido.MidiFile(type=1, charset=cs, tracks=[
            mido.MidiTrack(m.copy() for m in base),
            mido.MidiTrack(m.copy() for m in base)])
        for k in range(1, 12):
            acc.evals += 1
            f = FailingFile(k)
            case = {'kind': 'save-fault', 'charset': cs, 'outer': outer,
                    'fault': 'write-error', 'position': k}
            try:
                mf.save(file=f)
                outcome = 'success'
            except OSError:
                outcome = 'raised'
                acc.nontrivial += 1
                acc.count('save_faults_that_failed')
                after_call(amb, acc, outcome, 'save',
                           dict(case, inside_handler=True))
            after_call(amb, acc, outcome, 'save', case)
        # a charset name that does not exist / is not a string: the call is
        # rejected on entering its scope
        good = save_bytes(mido.MidiFile(type=1, tracks=[
            mido.MidiTrack(m.copy() for m in base)]))
        for badcs in ('utf_8x', 'no-such-charset', None, 5, ''):
            for what in ('load', 'save'):
                acc.evals += 1
                case = {'kind': 'save-fault', 'charset': cs, 'outer': outer,
                        'fault': f'bad-charset-name:{badcs!r}:{what}',
                        'position': 0}
                try:
                    if what == 'load':
                        load_bytes(mido, good, charset=badcs)
                    else:
                        mf2 = mido.MidiFile(type=1, charset=badcs, tracks=[
                            mido.MidiTrack(m.copy() for m in base)])
                        save_bytes(mf2)
                    outcome = 'success'
                except Exception:
                    outcome = 'raised'
                    acc.nontrivial += 1
                    acc.count('save_faults_that_failed')
                    after_call(amb, acc, outcome, what,
                               dict(case, inside_handler=True))
                after_call(amb, acc, outcome, what, case)
        # loading from a file name that does not exist / saving nowhere
        for fn_case in ('missing-file', 'no-target'):
            acc.evals += 1
            try:
                if fn_case == 'missing-file':
                    mido.MidiFile('/nonexistent/dir/x.mid', charset=cs)
                else:
                    mf.save()
            except Exception:
                pass
            after_call(amb, acc, 'raised', fn_case, {'kind': fn_case,
                                                     'charset': cs,
                                                     'outer': outer})


def worker(shard):
    mido = common.import_mido()
    acc = Acc()
    kind = shard[0]
    if kind == 'roundtrip':
        cs = shard[1]
        register_custom_spec()
        for ti, text in enumerate(TEXTS):
            if not encodable(text, cs):
                continue
            types = rm.TEXT_TYPES + ('program_name',)
            if ti >= LONG_TEXT_FROM:
                types = ('text', 'track_name', 'program_name')
            for t in types:
                for outer in OUTERS:
                    if ti >= LONG_TEXT_FROM and outer not in (None, 'utf-8'):
                        continue
                    check_roundtrip(mido, cs, text, t, outer, acc)
        acc.sample({'charset': cs, 'texts': [t[:8] for t in TEXTS]}, cap=1)
    elif kind == 'load':
        cs, outer = shard[1], shard[2]
        for text in ('ab', '\xe9', 'あ€'):
            if encodable(text, cs):
                check_load_faults(mido, cs, text, outer, acc)
        acc.sample({'load_faults_charset': cs, 'outer': outer}, cap=1)
    elif kind == 'save':
        check_save_faults(mido, shard[1], shard[2], acc)
        acc.sample({'save_faults_charset': shard[1], 'outer': shard[2]}, cap=1)
    return acc


def run():
    common.import_mido()
    thorough = common.tier() == 'thorough'
    rep = Report(PROP, 'fault_enumeration',
                 'enumeration of every failure point of load (each truncation '
                 'offset, each corrupted byte) and save (n-th bad message, '
                 'k-th failing write) with a charset probe after every call')
    css = CHARSETS if thorough else CHARSETS[:5]
    shards = [('roundtrip', cs) for cs in CHARSETS]
    for cs in css:
        for outer in (None, 'cp1252', 'utf-8'):
            shards.append(('load', cs, outer))
            shards.append(('save', cs, outer))
    run_shards(worker, shards, rep)
    rep.coverage['exhaustive'] = True
    rep.coverage['rule'] = (
        f'round trip: {len(CHARSETS)} charsets x {len(TEXTS)} texts '
        f'(encodable pairs) x 9 text-carrying meta types and a custom one registered with add_meta_spec() as documented x ambient {{default, '
        f'outer meta_charset(cp1252 / utf-8 / utf-16 / latin1)}}, long texts '
        f'(up to 70000 characters, multi-byte characters at every alignment) '
        f'included: payload bytes in the file (reference '
        f'decoder) == text.encode(charset), load gives the text back. Faults '
        f'on load: every truncation offset of the saved file, every track '
        f'byte set to 0xFF and 0x80, bad chunk names, undecodable payloads; '
        f'faults on save: a float/negative time, a real-time message, an '
        f'unencodable text as the n-th message for every n (in the first or '
        f'second track), the output file raising OSError on its k-th write '
        f'for every k, a missing file name, charset names that do not exist or are not strings. After EVERY call, succeeded or '
        f'raised, MetaMessage("text").bytes() and from_bytes must behave as '
        f'under the ambient charset. Non-trivial = the call raised')
    rep.assumptions += ['charsets limited to the listed eight',
                        'the probe uses the public MetaMessage codec only']
    rep.require(rep.coverage.get('load_faults_that_failed', 0) > 100,
                'load faults never failed')
    rep.require(rep.coverage.get('save_faults_that_failed', 0) > 50,
                'save faults never failed')
    return rep


def check_case(case):
    mido = common.import_mido()
    acc = Acc()
    k = case['kind']
    if k == 'roundtrip':
        check_roundtrip(mido, case['charset'], case['text'], case['type'],
                        case['outer'], acc)
    elif k == 'load-fault':
        check_load_faults(mido, case['charset'], case['text'], case['outer'],
                          acc)
    else:
        check_save_faults(mido, case['charset'], case.get('outer'), acc)
    return [(k, v[0][1]) for k, v in acc.viol.items()]


def replay(path):
    from ..replay import generic_replay
    return generic_replay(PROP, path, check_case)
