"""C15 - copy, freeze and thaw have value semantics.

E2: for every base object (a Message per type, MetaMessage per type,
UnknownMetaMessage) a pool of up to 3 related objects is explored breadth
first under copy / copy(**overrides) / freeze / thaw / setattr / delattr /
hash / dict-key operations; a reference pool of plain dicts is kept in lock
step.  The state key records aliasing (object and __dict__ identity).
"""
from .. import common
from ..engine_bfs import Search
from ..engine_enum import Acc, run_shards
from ..evidence import Report
from ..ref import meta as rm
from ..ref import midi as ref

PROP = 'C15'
POOL_MAX = 3
REJECT = (ValueError, TypeError, AttributeError, LookupError)

META_SAMPLE = {
    'sequence_number': {'number': 7},
    'text': {'text': 'ab'}, 'copyright': {'text': 'c'},
    'track_name': {'name': 'tr'}, 'instrument_name': {'name': 'in'},
    'lyrics': {'text': 'la'}, 'marker': {'text': 'm'},
    'cue_marker': {'text': 'q'}, 'device_name': {'name': 'dev'},
    'channel_prefix': {'channel': 3}, 'midi_port': {'port': 2},
    'end_of_track': {}, 'set_tempo': {'tempo': 250000},
    'smpte_offset': {'frame_rate': 25, 'hours': 1, 'minutes': 2,
                     'seconds': 3, 'frames': 4, 'sub_frames': 5},
    'time_signature': {'numerator': 3, 'denominator': 8},
    'key_signature': {'key': 'F#m'},
    'sequencer_specific': {'data': (1, 2)},
}
META_ALT = {
    'number': 9, 'text': 'zz', 'name': 'nn', 'channel': 200, 'port': 255,
    'tempo': 1, 'frame_rate': 30, 'numerator': 7, 'key': 'Cb', 'data': (9,),
}
META_BAD = {
    'number': 65536, 'text': 5, 'name': None, 'channel': 256, 'port': -1,
    'tempo': 2 ** 24, 'frame_rate': 23, 'numerator': 256, 'key': 'H',
    'data': (256,),
}


def bases(mido):
    """(label, factory, first_attr, alt, bad)"""
    out = []
    for t in ref.TYPES:
        names = ref.attr_names(t)
        attrs = {}
        for n in names:
            if n == 'data':
                attrs[n] = (1, 2, 3)
            elif n == 'pitch':
                attrs[n] = -100
            else:
                lo, hi = ref.RANGES[n]
                attrs[n] = min(hi, lo + 5)
        first = names[0] if names else None
        if first == 'data':
            alt, bad = (7,), (128,)
        elif first:
            lo, hi = ref.RANGES[first]
            alt, bad = hi, hi + 1
        else:
            alt = bad = None
        out.append((f'Message:{t}',
                    lambda t=t, a=attrs: mido.Message(t, time=2, **a),
                    first, alt, bad))
    for t, a in META_SAMPLE.items():
        first = rm.attrs_of(t)[0] if rm.attrs_of(t) else None
        out.append((f'MetaMessage:{t}',
                    lambda t=t, a=a: mido.MetaMessage(t, time=2, **a),
                    first, META_ALT.get(first), META_BAD.get(first)))
    out.append(('MetaMessage:sequencer_specific[list]',
                lambda: mido.MetaMessage('sequencer_specific', data=[4, 5]),
                'data', [9], [256]))
    out.append(('UnknownMetaMessage',
                lambda: mido.UnknownMetaMessage(0x60, data=(1, 2), time=5),
                'data', (9,), None))
    # payloads at and beyond sizes where caches/bulk paths switch on
    for n in ((255, 256, 300, 1100) if common.tier() == 'thorough'
              else (256, 300)):
        big = tuple((i * 3) & 0x7F for i in range(n))
        out.append((f'Message:sysex[{n}]',
                    lambda b=big: mido.Message('sysex', data=b, time=2),
                    'data', big[:-1] + (5,), big[:-1] + (128,)))
    big = tuple(i & 0xFF for i in range(300))
    out.append(('MetaMessage:sequencer_specific[300]',
                lambda b=big: mido.MetaMessage('sequencer_specific', data=b),
                'data', big[1:], big[:-1] + (256,)))
    out.append(('UnknownMetaMessage[300]',
                lambda b=big: mido.UnknownMetaMessage(0x61, data=b, time=1),
                'data', big[1:], None))
    out.append(('MetaMessage:text[3000]',
                lambda: mido.MetaMessage('text', text='ab c' * 750),
                'text', 'ab c' * 749, 5))
    # every attribute at its default
    out.append(('Message:note_on[defaults]', lambda: mido.Message('note_on'),
                'channel', 9, 16))
    out.append(('Message:control_change[defaults]',
                lambda: mido.Message('control_change'), 'channel', 15, 16))
    out.append(('MetaMessage:set_tempo[default]',
                lambda: mido.MetaMessage('set_tempo'), 'tempo', 500001,
                2 ** 24))
    out.append(('MetaMessage:time_signature[defaults]',
                lambda: mido.MetaMessage('time_signature'), 'numerator', 3,
                256))
    return out


def kind_of(mido, obj):
    from mido.frozen import (FrozenMessage, FrozenMetaMessage,
                             FrozenUnknownMetaMessage)
    table = [(FrozenMessage, ('Message', True)),
             (FrozenUnknownMetaMessage, ('Unknown', True)),
             (FrozenMetaMessage, ('Meta', True)),
             (mido.Message, ('Message', False)),
             (mido.UnknownMetaMessage, ('Unknown', False)),
             (mido.MetaMessage, ('Meta', False))]
    for cls, k in table:
        if type(obj) is cls:
            return k
    return (type(obj).__name__, None)


def norm_vars(d):
    out = {}
    for k, v in d.items():
        out[k] = tuple(v) if isinstance(v, (tuple, list)) else v
    return out


def make_search(mido, base, depth):
    label, factory, first, alt, bad = base
    from mido.frozen import freeze_message, thaw_message
    is_unknown = label.startswith('UnknownMetaMessage')

    overrides = [(('time', 3),)]
    if first is not None:
        overrides += [((first, alt),), ((first, alt), ('time', 1.5))]
    inv_overrides = []
    if not is_unknown:
        inv_overrides = [(('time', 'x'),), (('nosuch', 1),),
                         (('type', 'nosuchtype'),)]
        # another VALID type with the same attributes: the type of a message
        # cannot be changed by copying it
        t0 = vars(factory())['type']
        twin = {'note_on': 'note_off', 'note_off': 'note_on',
                'polytouch': 'note_on', 'start': 'stop', 'stop': 'start',
                'clock': 'reset', 'continue': 'clock', 'reset': 'clock',
                'active_sensing': 'clock', 'tune_request': 'clock',
                'text': 'lyrics', 'lyrics': 'text', 'marker': 'cue_marker',
                'cue_marker': 'marker', 'copyright': 'text',
                'track_name': 'instrument_name',
                'instrument_name': 'track_name', 'device_name': 'track_name',
                'channel_prefix': 'midi_port'}.get(t0)
        if twin:
            inv_overrides.append((('type', twin),))
        if bad is not None:
            inv_overrides.append(((first, bad),))
        # an override that compares EQUAL to the current value but is of the
        # wrong type (60.0 for 60): a fresh construction would reject it
        cur = vars(factory()).get(first) if first else None
        if isinstance(cur, int) and not isinstance(cur, bool) \
                and first != 'frame_rate':     # 25.0 is a legal frame rate
            inv_overrides.append(((first, float(cur)),))
        elif isinstance(cur, tuple) and cur and all(
                isinstance(x, int) for x in cur) and label.startswith('Message'):
            inv_overrides.append(((first, [float(x) for x in cur]),))
    sets = [('time', 4, True)]
    if first is not None:
        sets.append((first, alt, True))
    if not is_unknown:
        sets += [('time', None, False), ('nosuch', 1, False),
                 ('type', 'clock', False)]
        if bad is not None:
            sets.append((first, bad, False))

    class Sys:
        pass

    def build(hist):
        s = Sys()
        s.pool = [factory()]
        s.ref = [(kind_of(mido, s.pool[0]), norm_vars(vars(s.pool[0])))]
        for op in hist:
            apply(s, op)
        return s

    def ops(s, hist):
        out = []
        n = len(s.pool)
        for i in range(n):
            if n < POOL_MAX:
                out.append(('copy', i))
                for k in range(len(overrides)):
                    out.append(('copyov', i, k))
                    if label.startswith('Message:') and k < 2:
                        out.append(('copyskip', i, k))
                out.append(('freeze', i))
                out.append(('thaw', i))
                if label.startswith('Message:'):
                    # an equal message built through another site (decoder)
                    out.append(('alt', i))
            for k in range(len(inv_overrides)):
                out.append(('copybad', i, k))
                if label.startswith('Message:') and \
                        inv_overrides[k][0][0] not in ('type', 'nosuch'):
                    out.append(('copyskipbad', i, k))
            for k in range(len(sets)):
                out.append(('set', i, k))
            out.append(('del', i))
            out.append(('hash', i))
            if label.startswith('Message:sysex'):
                out.append(('iadd', i))
            for j in range(n):
                if i < j:
                    out.append(('pair', i, j))
        return out

    FORMS = (tuple, list, lambda v: (x for x in v), lambda v: iter(list(v)),
             lambda v: bytearray(v) if all(
                 isinstance(x, int) and 0 <= x < 256 for x in v) else list(v))

    REITERABLE = (tuple, list, FORMS[4])

    def formed(s, pairs, oneshot=True):
        # sequence values are handed over in a rotating container form
        # (tuple, list, generator, iterator, bytearray).  One-shot iterables
        # only where the property defines the outcome (copy with overrides ==
        # fresh construction, which accepts them); what plain assignment of a
        # generator stores is not covered by the statement.
        s.nops = getattr(s, 'nops', 0) + 1
        forms = FORMS if oneshot else REITERABLE
        return {k: (forms[(s.nops + len(s.pool)) % len(forms)](v)
                    if isinstance(v, tuple) else v) for k, v in pairs}

    def ref_apply(s, op, obs):
        """Update the reference pool assuming the op did what it should."""
        k = op[0]
        i = op[1]
        (cls, frozen), d = s.ref[i]
        if k == 'copy':
            s.ref.append(((cls, frozen), dict(d)))
        elif k in ('copyov', 'copyskip'):
            nd = dict(d)
            for name, v in overrides[op[2]]:
                nd[name] = tuple(v) if isinstance(v, (list, tuple)) else v
            s.ref.append(((cls, frozen), nd))
        elif k == 'freeze':
            if not frozen:
                s.ref.append(((cls, True), dict(d)))
            else:
                s.ref.append(s.ref[i])       # same object
        elif k == 'thaw':
            s.ref.append(((cls, False), dict(d)))
        elif k == 'alt':
            s.ref.append(((cls, frozen), dict(d)))
        elif k == 'set':
            name, v, ok = sets[op[2]]
            if ok and not frozen:
                d[name] = tuple(v) if isinstance(v, (list, tuple)) else v
        elif k == 'iadd':
            if not frozen:
                d['data'] = tuple(d['data']) + (5,)

    def apply(s, op):
        k = op[0]
        i = op[1]
        obj = s.pool[i]
        obs = None
        try:
            if k == 'copy':
                new = obj.copy()
                obs = ('new', new)
            elif k == 'copyov':
                new = obj.copy(**formed(s, overrides[op[2]]))
                obs = ('new', new)
            elif k == 'copyskip':
                new = obj.copy(skip_checks=True, **formed(s, overrides[op[2]]))
                obs = ('new', new)
            elif k == 'copybad':
                new = obj.copy(**dict(inv_overrides[op[2]]))
                obs = ('accepted', new)
            elif k == 'copyskipbad':
                # with skip_checks nothing is validated: the copy must be
                # whatever constructing the message afresh with the same
                # values and skip_checks gives (same vars, or the same
                # exception class)
                ov = dict(inv_overrides[op[2]])

                def outcome(fn):
                    try:
                        return ('ok', norm_vars(vars(fn())))
                    except Exception as e:
                        return ('raised', type(e).__name__)
                merged = dict(vars(obj))
                merged.update(ov)
                t_ = merged.pop('type')
                a = outcome(lambda: obj.copy(skip_checks=True, **ov))
                b = outcome(lambda: mido.Message(t_, skip_checks=True, **merged))
                obs = ('probe', (a, b))
            elif k == 'freeze':
                new = freeze_message(obj)
                obs = ('new', new)
            elif k == 'thaw':
                new = thaw_message(obj)
                obs = ('new', new)
            elif k == 'alt':
                new = mido.Message.from_bytes(obj.bytes(), time=obj.time)
                if s.ref[i][0][1]:
                    new = freeze_message(new)    # keep frozenness
                obs = ('new', new)
            elif k == 'set':
                name, v, ok = sets[op[2]]
                setattr(obj, name, v if is_unknown else formed(
                    s, [(name, v)], oneshot=False)[name])
                obs = ('done', None)
            elif k == 'del':
                delattr(obj, 'time')
                obs = ('done', None)
            elif k == 'iadd':
                obj.data += (5,)
                obs = ('done', None)
            elif k == 'hash':
                obs = ('hash', hash(obj))
            elif k == 'pair':
                a, b = s.pool[op[1]], s.pool[op[2]]
                eq = (a == b)
                hit = None
                if s.ref[op[1]][0][1] and s.ref[op[2]][0][1]:
                    try:
                        hit = {a: 'x'}.get(b)
                    except Exception as e:
                        hit = e
                obs = ('pair', (eq, hit))
        except Exception as e:
            obs = ('raised', e)
        # bookkeeping so that the pool and the reference stay aligned
        if obs[0] == 'new':
            s.pool.append(obs[1])
            ref_apply(s, op, obs)
        elif obs[0] == 'done':
            ref_apply(s, op, obs)
        elif obs[0] == 'raised' and k in ('copy', 'copyov', 'copyskip', 'freeze',
                                          'thaw', 'alt'):
            # a failed constructor-like op adds nothing; record nothing
            pass
        return obs

    def check(s, hist, op, obs, violation):
        if obs[0] == 'probe':
            a, b = obs[1]
            if a != b:
                violation(f'{label.split(":")[0]}/copyskipbad/differs-from-fresh',
                          f'{label}: copy(skip_checks=True, '
                          f'{dict(inv_overrides[op[2]])}) -> {str(a)[:200]}; '
                          f'Message(..., skip_checks=True) with the same '
                          f'values -> {str(b)[:200]} [history {hist + (op,)}]',
                          {'kind': 'history', 'base': label,
                           'ops': [list(o) for o in hist + (op,)]})
            return
        k = op[0]
        i = op[1]
        case = {'kind': 'history', 'base': label,
                'ops': [list(o) for o in hist + (op,)]}

        def bad_(key, what):
            violation(f'{label.split(":")[0]}/{k}/{key}',
                      f'{label}: {what} [history {hist + (op,)}]', case)

        (cls, frozen), _ = s.ref[i]
        if obs[0] == 'raised':
            e = obs[1]
            expected_raise = (
                k == 'copybad' or k == 'del' or
                (k == 'hash') or      # unfrozen: unhashable is fine; frozen: judged below
                (k == 'pair' and False) or
                (k in ('set', 'iadd') and (frozen or (k == 'set' and
                                                       not sets[op[2]][2]))))
            if not expected_raise:
                bad_(f'raised/{type(e).__name__}', f'{op} raised {e!r}')
                return
        else:
            if k == 'copybad':
                bad_('invalid-override-accepted',
                     f'copy(**{dict(inv_overrides[op[2]])}) returned '
                     f'{obs[1]!r}')
                return
            if k == 'del' and obs[0] == 'done':
                bad_('delete-accepted', 'delattr(time) did not raise')
            if k in ('set', 'iadd') and obs[0] == 'done' and frozen:
                bad_('frozen-mutated', f'{op} on a frozen message was accepted')
                return
            if k == 'set' and obs[0] == 'done' and not sets[op[2]][2]:
                bad_('invalid-assignment-accepted', f'{sets[op[2]]}')
                return
        if obs[0] == 'new':
            new = obs[1]
            orig = s.pool[i]
            if k == 'freeze' and frozen:
                if new is not orig:
                    bad_('freeze-frozen-not-identity',
                         'freezing a frozen message returned another object')
            elif new is orig or vars(new) is vars(orig):
                bad_('aliased', f'{k} returned an object sharing state with '
                     f'its argument')
                return
        if obs[0] == 'hash' and frozen:
            for j, ((c2, f2), d2) in enumerate(s.ref):
                if j != i and f2 and d2 == s.ref[i][1]:
                    try:
                        h2 = hash(s.pool[j])
                    except Exception as e:
                        h2 = e
                    if h2 != obs[1]:
                        bad_('equal-frozen-unequal-hash',
                             f'hash {obs[1]} vs {h2}')
        if obs[0] == 'raised' and k == 'hash' and frozen:
            bad_(f'frozen-unhashable/{type(obs[1]).__name__}',
                 f'hash() raised {obs[1]!r}')
        if obs[0] == 'pair':
            eq, hit = obs[1]
            want = s.ref[op[1]][1] == s.ref[op[2]][1]
            if bool(eq) != want:
                bad_('equality', f'== gave {eq}, reference dicts equal: {want}')
            if hit is not None or (s.ref[op[1]][0][1] and s.ref[op[2]][0][1]):
                if want and hit != 'x':
                    bad_('dict-key-miss',
                         f'equal frozen messages: lookup gave {hit!r}')
                if not want and hit == 'x':
                    bad_('dict-key-false-hit', 'unequal frozen messages hit')
        # every object equals its own reference (value semantics) and has the
        # right class
        if len(s.pool) != len(s.ref):
            bad_('harness-misaligned', 'pool/reference length differ')
            return
        for j, (obj, ((c, f), d)) in enumerate(zip(s.pool, s.ref)):
            got_kind = kind_of(mido, obj)
            if got_kind != (c, f):
                bad_('wrong-class',
                     f'object {j} is {type(obj).__name__}, expected '
                     f'{"Frozen" if f else ""}{c}')
                return
            if norm_vars(vars(obj)) != d:
                bad_('value-semantics',
                     f'object {j} has {vars(obj)}, its reference says {d} '
                     f'(an operation on one object showed in another, or a '
                     f'copy/freeze/thaw result differs from its source)')
                return
            if f and type(vars(obj).get('data', ())) is list:
                bad_('frozen-holds-list', f'object {j}')
            if not isinstance(vars(obj).get('data', ()), tuple):
                bad_('data-not-a-tuple',
                     f'object {j} holds data of type '
                     f'{type(vars(obj)["data"]).__name__}: not equal to a '
                     f'freshly constructed message, and shared with whoever '
                     f'passed it in')
                return

    def key(s):
        ids = {}
        alias = []
        for obj in s.pool:
            alias.append((ids.setdefault(id(obj), len(ids)),
                          ids.setdefault(id(vars(obj)), len(ids))))
        return (tuple(alias), tuple(
            (kind_of(mido, o), tuple(
                (k, repr(v)) for k, v in vars(o).items()))   # insertion order kept
            for o in s.pool))

    return Search(build, ops, apply, check, key, max_depth=depth)


def worker(shard):
    mido = common.import_mido()
    acc = Acc()
    idx, depth = shard
    base = bases(mido)[idx]
    srch = make_search(mido, base, depth)
    srch.run(acc.violation, procs=1)
    acc.evals = srch.transitions
    acc.nontrivial = srch.transitions
    acc.count('states', srch.states)
    acc.count('transitions', srch.transitions)
    acc.count('traces_validated_against_impl', srch.transitions)
    for smp in srch.samples[:1]:
        acc.sample({'base': base[0], 'ops': [list(o) for o in smp]})
    return acc


def none_cases(mido, rep):
    from mido.frozen import freeze_message, thaw_message, is_frozen
    for name, fn in (('freeze_message', freeze_message),
                     ('thaw_message', thaw_message)):
        rep.add('evaluations')
        try:
            r = fn(None)
        except Exception as e:
            rep.violation(f'none/{name}/{type(e).__name__}',
                          f'{name}(None) raised {e!r}; None expected',
                          {'kind': 'none', 'fn': name})
        else:
            if r is not None:
                rep.violation(f'none/{name}/not-none', f'{name}(None) = {r!r}',
                              {'kind': 'none', 'fn': name})
    for bad in (5, 'x', object()):
        for name, fn in (('freeze_message', freeze_message),):
            rep.add('evaluations')
            try:
                r = fn(bad)
            except Exception:
                pass
            else:
                rep.violation(f'non-message/{name}/accepted',
                              f'{name}({bad!r}) = {r!r}',
                              {'kind': 'none', 'fn': name})


def run():
    mido = common.import_mido()
    thorough = common.tier() == 'thorough'
    rep = Report(PROP, 'model_checking',
                 'BFS over operation histories on a pool of related message '
                 'objects against a reference pool of plain dicts')
    depth = 4 if thorough else 3
    n = len(bases(mido))
    run_shards(worker, [(i, depth) for i in range(n)], rep)
    none_cases(mido, rep)
    rep.coverage['bfs_depth'] = depth
    rep.coverage['base_objects'] = n
    rep.coverage['exhaustive'] = True
    rep.coverage['rule'] = (
        f'{n} base objects (a Message of each of the 18 types, a MetaMessage '
        f'of each of the 17 types, sequencer_specific built from a list, an '
        f'UnknownMetaMessage); from each, every history of length <= {depth} '
        f'(to the closure of the deduplicated state graph) over: b=a.copy(), '
        f'a.copy(**valid overrides), a.copy(**invalid overrides), '
        f'freeze_message, thaw_message, an equal message rebuilt through the decoder, valid/invalid setattr, delattr, '
        f'data+=, hash, ==, dict lookup, on a pool of <= {POOL_MAX} objects. '
        f'Reference: plain dict per object, class table. State key includes '
        f'object and __dict__ identity so aliasing is never merged away')
    rep.assumptions += ['one representative value per attribute']
    rep.require(rep.coverage.get('states', 0) > 1000, 'too few states')
    return rep


def check_case(case):
    mido = common.import_mido()
    out = []
    if case['kind'] == 'none':
        rep = Report(PROP, 'model_checking')
        none_cases(mido, rep)
        return [(k, v[0].what) for k, v in rep.violations.items()]
    base = [b for b in bases(mido) if b[0] == case['base']][0]
    srch = make_search(mido, base, 99)
    hist = tuple(tuple(o) for o in case['ops'])
    s = srch.build(hist[:-1])
    obs = srch.apply(s, hist[-1])
    srch.check(s, hist[:-1], hist[-1], obs,
               lambda k, w, c=None: out.append((k, w)))
    return out


def replay(path):
    from ..replay import generic_replay
    return generic_replay(PROP, path, check_case)
