"""Shared by C10/C11/C18: device doubles implementing only the documented
extension seam (_open/_close/_send/_receive), and the sleep / shuffle seams.
"""
import types


class Horizon(BaseException):
    """Raised by the sleep seam to cut a blocking call that has polled more
    often than the harness horizon with nothing deliverable."""


class Device:
    """Harness-owned state of a fake MIDI device."""

    def __init__(self, name):
        self.name = name
        self.incoming = []        # messages the device has, not yet taken in
        self.taken = []           # messages the port has taken in (in order)
        self.sent = []            # messages written by the port
        self.opened = 0
        self.released = 0
        self.hung_up = False      # the device closed itself (like a peer EOF)
        self.fail_send_at = None  # 1-based index of the _send call to fail
        self.fail_receive_at = None   # index of the _receive call to fail
        self.send_calls = 0
        self.receive_calls = []   # block= argument of every _receive call
        self.log = []             # ordered ('send', msg) / ('close',) events

    def _canon_key(self):
        # what can influence the future: pending input, hang-up, release
        # state, distance to an armed write failure.  Logs of past events
        # (sent, taken, receive_calls, log) cannot.
        remaining = (None if self.fail_send_at is None
                     else self.fail_send_at - self.send_calls)
        if remaining is not None and remaining <= 0:
            remaining = None
        rrem = (None if self.fail_receive_at is None
                else self.fail_receive_at - len(self.receive_calls))
        return (self.name, tuple((m.velocity, m.note) for m in self.incoming),
                self.hung_up, self.released, self.opened, remaining, rrem)


_DOUBLES = {}


def make_doubles(mido):
    if id(mido) in _DOUBLES:
        return _DOUBLES[id(mido)]
    r = _make_doubles(mido)
    _DOUBLES[id(mido)] = r
    return r


def _make_doubles(mido):
    ports = mido.ports

    class Mixin:
        _dev_style = 'direct'     # 'direct' | 'parser'
        _self_closing = False

        def _open(self, dev=None, **kwargs):
            self.dev = dev
            dev.opened += 1

        def _close(self):
            self.dev.released += 1
            self.dev.log.append(('close',))

        def _send(self, msg):
            d = self.dev
            d.send_calls += 1
            if d.fail_send_at is not None and d.send_calls == d.fail_send_at:
                raise OSError('device write failed (injected)')
            d.sent.append(msg)
            d.log.append(('send', msg))

        def _receive(self, block=True):
            d = self.dev
            d.receive_calls.append(block)
            if d.fail_receive_at is not None and \
                    len(d.receive_calls) == d.fail_receive_at:
                d.fail_receive_at = None
                raise OSError('device read failed (injected)')
            if self._dev_style == 'direct':
                if d.incoming:
                    m = d.incoming.pop(0)
                    d.taken.append(m)
                    return m
                if self._self_closing and d.hung_up:
                    self.close()
                return None
            while d.incoming:
                m = d.incoming.pop(0)
                d.taken.append(m)
                self._parser.feed(m.bytes())
            if self._self_closing and d.hung_up:
                self.close()
            return None

    class InDouble(Mixin, ports.BaseInput):
        pass

    class InParserDouble(Mixin, ports.BaseInput):
        _dev_style = 'parser'

    class InSelfClosing(Mixin, ports.BaseInput):
        _dev_style = 'parser'
        _self_closing = True

    class InSelfClosingDirect(Mixin, ports.BaseInput):
        _self_closing = True

    class OutDouble(Mixin, ports.BaseOutput):
        pass

    class IODouble(Mixin, ports.BaseIOPort):
        _dev_style = 'parser'

    class IOSelfClosing(Mixin, ports.BaseIOPort):
        _dev_style = 'parser'
        _self_closing = True

    return types.SimpleNamespace(
        InDouble=InDouble, InParserDouble=InParserDouble,
        InSelfClosing=InSelfClosing, InSelfClosingDirect=InSelfClosingDirect,
        OutDouble=OutDouble, IODouble=IODouble, IOSelfClosing=IOSelfClosing)


class TimeShim:
    """Replacement for the ``time`` module inside mido.ports: sleep() is an
    environment choice point owned by the harness."""

    def __init__(self, real):
        self._real = real
        self.on_sleep = None

    def sleep(self, seconds):
        if self.on_sleep is not None:
            self.on_sleep(seconds)

    def __getattr__(self, name):
        return getattr(self._real, name)


class RandomShim:
    """Replacement for ``random`` inside mido.ports: shuffle applies the
    permutation chosen by the harness (default identity)."""

    def __init__(self, real):
        self._real = real
        self.perm = None

    def shuffle(self, lst):
        if self.perm is not None and len(self.perm) == len(lst):
            lst[:] = [lst[i] for i in self.perm]

    def __getattr__(self, name):
        return getattr(self._real, name)


def install_seams(mido):
    """Install (once) the time/random shims in mido.ports; returns them."""
    p = mido.ports
    if not isinstance(p.time, TimeShim):
        p.time = TimeShim(p.time)
    if not isinstance(p.random, RandomShim):
        p.random = RandomShim(p.random)
    return p.time, p.random


class Endless(Exception):
    """An iteration that should end after the pending messages did not."""


def take(iterable, limit=20000):
    """list(iterable), but an iteration that never ends (a generator that
    keeps yielding, e.g. None for ever) raises Endless instead of hanging."""
    out = []
    for x in iterable:
        out.append(x)
        if len(out) > limit:
            raise Endless(f'more than {limit} items, first {out[:3]!r}')
    return out
