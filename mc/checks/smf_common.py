"""Shared by C07/C08/C17: event alphabet, mido message <-> canonical SMF event
conversion, save/load helpers."""
import io

from ..ref import meta as rm
from ..ref import midi as ref
from ..ref import smf

DELTAS = (0, 1, 127, 128, 16383, 16384, 2097151, 2097152, 0x0FFFFFFF)
PAYLOAD_LENGTHS = (0, 1, 126, 127, 128, 16383, 16384)

# symbol -> factory(mido, delta)
SYMBOLS = (
    'on0', 'on0b', 'on1', 'off0', 'prog', 'pitch', 'qframe', 'songpos',
    'songsel', 'tune', 'sysex0', 'sysex1', 'text0', 'text1', 'tempo', 'eot',
    'unk0', 'unk1', 'seqspec', 'cc0',
)


def make(mido, sym, delta=0):
    M, MM = mido.Message, mido.MetaMessage
    if sym == 'on0':
        return M('note_on', channel=0, note=60, velocity=64, time=delta)
    if sym == 'on0b':
        return M('note_on', channel=0, note=61, velocity=0, time=delta)
    if sym == 'on1':
        return M('note_on', channel=1, note=60, velocity=64, time=delta)
    if sym == 'off0':
        return M('note_off', channel=0, note=60, velocity=127, time=delta)
    if sym == 'cc0':
        return M('control_change', channel=0, control=7, value=100, time=delta)
    if sym == 'prog':
        return M('program_change', channel=0, program=5, time=delta)
    if sym == 'pitch':
        return M('pitchwheel', channel=15, pitch=-8192, time=delta)
    if sym == 'qframe':
        return M('quarter_frame', frame_type=7, frame_value=15, time=delta)
    if sym == 'songpos':
        return M('songpos', pos=16383, time=delta)
    if sym == 'songsel':
        return M('song_select', song=127, time=delta)
    if sym == 'tune':
        return M('tune_request', time=delta)
    if sym == 'sysex0':
        return M('sysex', data=(), time=delta)
    if sym == 'sysex1':
        return M('sysex', data=(0x7F,), time=delta)
    if sym == 'text0':
        return MM('text', text='', time=delta)
    if sym == 'text1':
        return MM('track_name', name='a', time=delta)
    if sym == 'tempo':
        return MM('set_tempo', tempo=250000, time=delta)
    if sym == 'eot':
        return MM('end_of_track', time=delta)
    if sym == 'unk0':
        return mido.UnknownMetaMessage(0x60, data=(), time=delta)
    if sym == 'unk1':
        return mido.UnknownMetaMessage(0x0A, data=(0xFF,), time=delta)
    if sym == 'seqspec':
        return MM('sequencer_specific', data=(1, 0xFE), time=delta)
    if sym.startswith('chx'):
        # chx<status hex>-<d1>[-<d2>]: a channel message by its raw bytes
        parts = sym[3:].split('-')
        return M.from_bytes([int(parts[0], 16)] + [int(x) for x in parts[1:]],
                            time=delta)
    if sym.startswith('sysexV'):
        return M('sysex', data=tuple(int(x) for x in sym[6:].split('-')),
                 time=delta)
    if sym.startswith('sysexN'):
        n = int(sym[6:])
        return M('sysex', data=tuple((i * 5) & 0x7F for i in range(n)),
                 time=delta)
    if sym.startswith('textN'):
        n = int(sym[5:])
        return MM('text', text='x' * n, time=delta)
    if sym.startswith('unkN'):
        n = int(sym[4:])
        return mido.UnknownMetaMessage(0x61, data=tuple(
            (i * 3) & 0xFF for i in range(n)), time=delta)
    if sym in ref.REALTIME:
        return M(sym, time=delta)
    raise KeyError(sym)


def msg_to_event(m, charset='latin1'):
    """Canonical SMF event of a mido message (through the *reference*
    codecs, not mido's)."""
    # classified by class and type name, not by the library's is_meta flag
    if m.type == 'unknown_meta' or m.type in rm.TABLE or \
            'Meta' in type(m).__name__:
        if m.type == 'unknown_meta':
            return ('meta', m.type_byte, tuple(m.data))
        attrs = {k: v for k, v in vars(m).items() if k not in ('type', 'time')}
        return ('meta', rm.TABLE[m.type][0],
                tuple(rm.payload(m.type, attrs, charset)))
    b = ref.encode(m.type, vars(m))
    if m.type == 'sysex':
        return ('sysex', tuple(m.data))
    if b[0] < 0xF0:
        return ('ch', b[0], tuple(b[1:]))
    return ('common', b[0], tuple(b[1:]))


def track_events(track, charset='latin1'):
    return [(m.time, msg_to_event(m, charset)) for m in track]


def msig(m):
    return (type(m).__name__, tuple(sorted(
        (k, tuple(v) if isinstance(v, (tuple, list)) else v)
        for k, v in vars(m).items())))


def track_sigs(track):
    return [msig(m) for m in track]


def normalised_sigs(mido, track):
    """Expected content of a track after save+load: EOTs folded."""
    out = []
    acc = 0
    for m in track:
        if m.type == 'end_of_track':
            acc += m.time
        else:
            if acc:
                m = m.copy(time=m.time + acc)
                acc = 0
            out.append(msig(m))
    out.append(msig(mido.MetaMessage('end_of_track', time=acc)))
    return out


def save_bytes(mf):
    buf = io.BytesIO()
    mf.save(file=buf)
    return buf.getvalue()


def load_bytes(mido, data, **kw):
    return mido.MidiFile(file=io.BytesIO(bytes(data)), **kw)


def short(x, n=240):
    r = repr(x)
    return r if len(r) <= n else r[:n - 60] + f'...({len(r)})...' + r[-40:]
