"""C16 - a MidiFile always reflects its current contents.

E2, differential: BFS over histories of edit operations interleaved with
observations on a live MidiFile; every observation must equal the same
observation on a MidiFile freshly built from the current contents.
"""
import io

from .. import common
from ..engine_bfs import Search, canon
from ..engine_enum import Acc
from ..evidence import Report

PROP = 'C16'


class FakeClock:
    def __init__(self):
        self.t = 100.0
        self.sleeps = []

    def now(self):
        return self.t

    def sleep(self, d):
        self.sleeps.append(d)
        if d > 0:
            self.t += d


class TimeShim:
    """Stands in for the ``time`` module inside mido.midifiles.midifiles."""

    def __init__(self, clock, real):
        self._clock = clock
        self._real = real

    def sleep(self, d):
        self._clock.sleep(d)

    def time(self):
        return self._clock.now()

    def __getattr__(self, name):
        return getattr(self._real, name)


def sig(m):
    return (type(m).__name__, tuple(sorted(
        (k, tuple(v) if isinstance(v, (list, tuple)) else v)
        for k, v in vars(m).items())))


def observe(mido, f, what):
    """Run one observation; return a comparable value (exceptions by type)."""
    import mido.midifiles.midifiles as mm
    try:
        if what == 'iter':
            return ('ok', [sig(m) for m in f])
        if what == 'length':
            return ('ok', f.length)
        if what == 'merged':
            return ('ok', [sig(m) for m in f.merged_track])
        if what == 'save':
            buf = io.BytesIO()
            f.save(file=buf)
            return ('ok', buf.getvalue())
        if what == 'play':
            clock = FakeClock()
            real = mm.time
            mm.time = TimeShim(clock, real)
            try:
                out = []
                for m in f.play(now=clock.now):
                    out.append((sig(m), clock.t))
                return ('ok', out, tuple(clock.sleeps))
            finally:
                mm.time = real
        if what == 'iter_nested':
            # a full iteration during which length is measured after the first
            # message (a progress display does this); the iteration itself
            # must be unaffected
            out = []
            for i, m in enumerate(f):
                out.append(sig(m))
                if i == 0:
                    try:
                        f.length
                    except Exception:
                        pass
            return ('ok', out)
        if what == 'play_meta':
            clock = FakeClock()
            real = mm.time
            mm.time = TimeShim(clock, real)
            try:
                out = [(sig(m), clock.t)
                       for m in f.play(meta_messages=True, now=clock.now)]
                return ('ok', out)
            finally:
                mm.time = real
    except Exception as e:
        return ('raised', type(e).__name__)
    raise AssertionError(what)


OBS = ('iter', 'length', 'merged', 'save', 'play', 'iter_nested')


def contents(f):
    return (f.type, f.ticks_per_beat, [[sig(m) for m in t] for t in f.tracks])


def fresh_copy(mido, f):
    tracks = [mido.MidiTrack(m.copy() for m in t) for t in f.tracks]
    return mido.MidiFile(type=f.type, ticks_per_beat=f.ticks_per_beat,
                         tracks=tracks)


def make_search(mido, depth, base=(0, 0)):
    """base = (tracks, messages per track) of the file every history starts
    from ((0, 0): the empty file)."""
    M, MM, MT = mido.Message, mido.MetaMessage, mido.MidiTrack
    counter = [0]
    base = tuple(base)

    def note(t):
        return M('note_on', note=60, velocity=64, time=t)

    def build(hist):
        f = mido.MidiFile(type=1, ticks_per_beat=480)
        for ti in range(base[0]):
            tr = MT()
            for pos in range(base[1]):
                if pos % 50 == 0:
                    tr.append(MM('set_tempo', tempo=400000 + 1000 * pos + ti,
                                 time=pos % 3))
                else:
                    tr.append(M('note_on', note=pos % 128, velocity=1 + ti,
                                time=(pos + ti) % 3))
            f.tracks.append(tr)
        s = {'f': f}
        for op in hist:
            apply(s, op)
        return s

    def ops(s, hist):
        f = s['f']
        out = [('add_track',), ('add_track_named',), ('append_track',),
               ('assign_tracks',), ('enter',), ('exit',)]
        out += [('tpb', v) for v in (480, 96, 0) if v != f.ticks_per_beat]
        for t in (0, 1, 2):
            if t != f.type:
                out.append(('type', t))
        n = len(f.tracks)
        if n:
            out += [('pop_track',), ('del_track0',)]
        for i in range(min(n, 2)):
            out += [('append_msg', i), ('insert_tempo', i),
                    ('extend_msgs', i), ('append_tempo', i),
                    ('append_pitch', i)]
            if any(getattr(m, 'type', '') == 'pitchwheel'
                   for m in f.tracks[i]):
                out.append(('toggle_pitch', i))
            if len(f.tracks[i]):
                out += [('del_msg0', i), ('set_time', i), ('dup_msg', i),
                        ('double_track', i)]
                if hasattr(f.tracks[i][0], 'tempo'):
                    out.append(('set_tempo_value', i))
        out += [('obs', w) for w in OBS]
        if base[0]:
            # large files: the edits that keep the size, and all observations
            drop = ('add_track_named', 'assign_tracks', 'type', 'append_track',
                    'double_track',
                    'pop_track', 'del_track0', 'extend_msgs', 'append_pitch')
            return [o for o in out if o[0] not in drop] + [('partial', 'iter', 2)]
        # an observation abandoned half-way (break out of iteration / play
        # after k messages) and a nested one
        out += [('partial', 'iter', 1), ('partial', 'iter', 2),
                ('partial', 'play', 2), ('nested',)]
        return out

    def apply(s, op):
        f = s['f']
        k = op[0]
        if k == 'obs':
            return observe(mido, f, op[1])
        if k == 'partial':
            try:
                import mido.midifiles.midifiles as mm
                n = 0
                if op[1] == 'iter':
                    for _ in f:
                        n += 1
                        if n >= op[2]:
                            break
                else:
                    clock = FakeClock()
                    real = mm.time
                    mm.time = TimeShim(clock, real)
                    try:
                        for _ in f.play(meta_messages=True, now=clock.now):
                            n += 1
                            if n >= op[2]:
                                break
                    finally:
                        mm.time = real
            except Exception:
                pass
            return None
        if k == 'nested':
            try:
                for i, _ in enumerate(f):
                    if i == 1:
                        f.length            # measured while iterating
                        break
            except Exception:
                pass
            return None
        if k == 'enter':
            # the context-manager form: `with MidiFile(...) as f:`
            try:
                if f.__enter__() is not f:
                    return 'enter-did-not-return-the-file'
            except Exception:
                pass
            return None
        if k == 'exit':
            try:
                f.__exit__(None, None, None)
            except Exception:
                pass
            return None
        if k == 'add_track':
            # add_track returns the new track, which is then edited
            n0 = len(f.tracks)
            t = f.add_track()
            t.append(note(0))
            if len(f.tracks) != n0 + 1 or f.tracks[-1] is not t:
                return 'add_track-did-not-add-the-returned-track'
        elif k == 'add_track_named':
            f.add_track('n')
        elif k == 'append_track':
            f.tracks.append(MT([note(3)]))
        elif k == 'pop_track':
            f.tracks.pop()
        elif k == 'del_track0':
            del f.tracks[0]
        elif k == 'append_msg':
            f.tracks[op[1]].append(note(10))
        elif k == 'extend_msgs':
            f.tracks[op[1]] += [note(1), MM('end_of_track', time=4)]
        elif k == 'append_tempo':
            f.tracks[op[1]].append(MM('set_tempo', tempo=1000000, time=5))
        elif k == 'append_pitch':
            f.tracks[op[1]].append(M('pitchwheel', pitch=-1, time=2))
        elif k == 'toggle_pitch':
            for m in f.tracks[op[1]]:
                if m.type == 'pitchwheel':
                    m.pitch = -2 if m.pitch == -1 else -1   # hash(-1)==hash(-2)
                    break
        elif k == 'insert_tempo':
            f.tracks[op[1]].insert(0, MM('set_tempo', tempo=250000, time=0))
        elif k == 'dup_msg':
            # the SAME message object a second time (documented list use)
            f.tracks[op[1]].append(f.tracks[op[1]][0])
        elif k == 'double_track':
            f.tracks[op[1]] = f.tracks[op[1]] * 2
        elif k == 'del_msg0':
            del f.tracks[op[1]][0]
        elif k == 'set_time':
            f.tracks[op[1]][0].time = 7
        elif k == 'set_tempo_value':
            f.tracks[op[1]][0].tempo = 1000000
        elif k == 'tpb':
            # 480 (default), 96, or 0 (the smallest value of the division
            # field, what a damaged file may carry)
            f.ticks_per_beat = op[1] if len(op) > 1 else (
                96 if f.ticks_per_beat != 96 else 480)
        elif k == 'type':
            f.type = op[1]
        elif k == 'assign_tracks':
            f.tracks = [MT([note(5)])]
        return None

    def check(s, hist, op, obs, violation):
        f = s['f']
        # after EVERY step, every observation must agree with a freshly built
        # file; the observation op itself is compared first (its result is
        # the one a user saw after this exact history)
        if op[0] == 'add_track' and obs == \
                'add_track-did-not-add-the-returned-track':
            violation('add_track/not-added',
                      f'history {hist + (op,)}: add_track() returned a track '
                      f'that is not the new last element of tracks',
                      {'kind': 'history', 'ops': [list(o) for o in hist + (op,)],
                       'observe': 'contents', 'base': list(base)})
            return
        if op[0] == 'enter' and obs == 'enter-did-not-return-the-file':
            violation('enter/with-as-is-not-the-file',
                      f'history {hist + (op,)}: `with MidiFile(...) as f` does '
                      f'not bind the file itself',
                      {'kind': 'history', 'ops': [list(o) for o in hist + (op,)],
                       'observe': 'contents', 'base': list(base)})
            return
        if op[0] in ('obs', 'partial', 'nested', 'enter', 'exit'):
            # looking at a file does not edit it
            before = build(hist)['f']
            if contents(before) != contents(f):
                violation(f'{op[0]}/observation-changed-the-file',
                          f'history {hist + (op,)}: contents before the '
                          f'observation {_short(contents(before))}, after it '
                          f'{_short(contents(f))}',
                          {'kind': 'history',
                           'ops': [list(o) for o in hist + (op,)],
                           'observe': 'contents', 'base': list(base)})
                return
        fr = fresh_copy(mido, f)
        todo = [op[1]] if op[0] == 'obs' else []
        first = True
        probe = OBS if not base[0] else ('iter', 'merged')
        for what in todo + [w for w in probe if w not in todo]:
            if op[0] == 'obs' and first:
                got = obs
            else:
                # observe on a rebuilt system so that this probing leaves no
                # trace (e.g. a populated cache) in the state that is keyed
                # and expanded
                got = observe(mido, build(hist + (op,))['f'], what)
            first = False
            exp = observe(mido, fresh_copy(mido, f),
                          'iter' if what == 'iter_nested' else what)
            if got != exp:
                prior = [o[1] for o in hist if o[0] == 'obs']
                violation(
                    f'{what}/differs-from-fresh/'
                    f'{"after-earlier-observation" if prior else "no-earlier-observation"}',
                    f'history {hist + (op,)}: {what} on the edited file = '
                    f'{_short(got)}; on a fresh file with the same contents = '
                    f'{_short(exp)}',
                    {'kind': 'history', 'ops': [list(o) for o in hist + (op,)],
                     'observe': what, 'base': list(base)})
                return

    def key(s):
        f = s['f']
        return canon({k: v for k, v in vars(f).items()})

    def expand(s, hist, op):
        f = s['f']
        return len(f.tracks) <= base[0] + 2 and all(
            len(t) <= base[1] + 3 for t in f.tracks)

    return Search(build, ops, apply, check, key, max_depth=depth,
                  expand=expand)


def _short(x):
    r = repr(x)
    return r if len(r) < 300 else r[:200] + '...' + r[-60:]


def run():
    mido = common.import_mido()
    thorough = common.tier() == 'thorough'
    rep = Report(PROP, 'model_checking',
                 'BFS over edit/observe histories of a live MidiFile; '
                 'differential oracle against a freshly built file')
    depth = 5 if thorough else 4
    srch = make_search(mido, depth)
    srch.run(rep.violation, procs=common.nproc())
    srch.fill(rep)
    # the same from large files (caches that only switch on beyond a size)
    bases = ((2, 300),) if not thorough else (
        (1, 600), (3, 200), (2, 1100), (9, 70))
    bdepth = 2
    for base in bases:
        s2 = make_search(mido, bdepth, base)
        s2.run(rep.violation, procs=common.nproc())
        s2.fill(rep)
    rep.coverage['large_base_files'] = [list(b) for b in bases]
    rep.coverage['large_base_depth'] = bdepth
    rep.coverage['bfs_depth'] = depth
    rep.coverage['exhaustive'] = True
    rep.coverage['rule'] = (
        f'every history of length <= {depth} (deduplicated by the complete '
        f'vars() of the MidiFile, cache included; tracks bounded at 2 x 3 '
        f'messages for expansion) over edits {{add_track, add_track(name), '
        f'tracks.append, tracks.pop, del tracks[0], track.append, track += '
        f'[...], track.insert(0, set_tempo), del track[0], msg.time = 7, the '
        f'same message object appended again, track * 2, '
        f'msg.tempo = ..., ticks_per_beat, type 0/1/2, tracks = [...], entering '
        f'/ leaving the context-manager form}} and '
        f'observations {{list(f), f.length, f.merged_track, save bytes, '
        f'play on a fake clock, an iteration or play abandoned after 1-2 messages, length measured inside an iteration}}. After every step all five observations are '
        f'compared with those of MidiFile(type, ticks_per_beat, tracks=deep '
        f'copy); exceptions compared by type. The same to depth {bdepth} '
        f'starting from files of {[list(b) for b in bases]} (tracks, messages '
        f'per track)')
    rep.assumptions += ['one note/tempo value per edit kind']
    rep.require(srch.states > 300, f'only {srch.states} states')
    return rep


def check_case(case):
    mido = common.import_mido()
    out = []
    srch = make_search(mido, 99, case.get('base', (0, 0)))
    hist = tuple(tuple(o) for o in case['ops'])
    s = srch.build(hist[:-1])
    obs = srch.apply(s, hist[-1])
    srch.check(s, hist[:-1], hist[-1], obs,
               lambda k, w, c=None: out.append((k, w)))
    return out


def replay(path):
    from ..replay import generic_replay
    return generic_replay(PROP, path, check_case)
