"""C14 - text, dict and repr representations round-trip (E1 + grammar
enumeration of text lines and streams)."""
import itertools
import math

from .. import common
from ..engine_enum import Acc, run_shards
from ..evidence import Report
from ..ref import meta as rm
from ..ref import midi as ref

PROP = 'C14'
TIMES = (0, 1, -5, 0.5, 1e-7, 1e300, 2 ** 70, -0.0, 123456789.125, -3.75,
         2 ** 53 + 1, 10 ** 23, -(2 ** 64 + 1), 10 ** 400, 1e16, 1.7976931348623157e308)


def namespace(mido):
    from mido.frozen import (FrozenMessage, FrozenMetaMessage,
                             FrozenUnknownMetaMessage)
    return {'Message': mido.Message, 'MetaMessage': mido.MetaMessage,
            'UnknownMetaMessage': mido.UnknownMetaMessage,
            'MidiTrack': mido.MidiTrack, 'MidiFile': mido.MidiFile,
            'FrozenMessage': FrozenMessage,
            'FrozenMetaMessage': FrozenMetaMessage,
            'FrozenUnknownMetaMessage': FrozenUnknownMetaMessage,
            '__builtins__': {}}


def same_msg(a, b):
    if type(a) is not type(b):
        return False
    va, vb = vars(a), vars(b)
    if set(va) != set(vb):
        return False
    for k in va:
        x, y = va[k], vb[k]
        if isinstance(x, tuple) or isinstance(y, tuple):
            if tuple(x) != tuple(y):
                return False
        elif x != y or (isinstance(x, float) != isinstance(y, float)
                        and k != 'time'):
            return False
    return True


def check_message(mido, m, acc, ns, do_repr=True):
    """The three round trips for one Message."""
    desc = None
    acc.evals += 1
    t = m.time
    tclass = 'int' if isinstance(t, int) else 'float'
    dlen = f'/data[{len(m.data)}]' if m.type == 'sysex' else ''
    case = {'kind': 'message', 'type': m.type,
            'attrs': {k: (list(v) if isinstance(v, tuple) else v)
                      for k, v in vars(m).items() if k != 'type'}}
    try:
        text = str(m)
        m2 = mido.Message.from_str(text)
        if not same_msg(m, m2):
            acc.violation(f'str/{m.type}{dlen}/time:{tclass}',
                          f'from_str({text!r}) = {m2!r}, original {m!r}', case)
        m2b = mido.parse_string(text)
        if not same_msg(m, m2b):
            acc.violation(f'parse_string/{m.type}{dlen}',
                          f'parse_string({text!r}) = {m2b!r}', case)
        # the text itself is in the documented format (independent grammar)
        parsed = ref_parse_line(text)
        want_attrs = {k: v for k, v in vars(m).items() if k != 'type'}
        if parsed is None or parsed[0] != m.type or not same_msg(
                m, mido.Message(parsed[0], **parsed[1])) or \
                set(parsed[1]) != set(want_attrs):
            acc.violation(f'str-not-in-documented-format/{m.type}{dlen}',
                          f'str(m) = {text!r} reads as {parsed!r} under the '
                          f'documented grammar; message {m!r}', case)
        # the other spellings of the same codec
        t2 = mido.format_as_string(m)
        t3 = mido.format_as_string(m, include_time=False)
        m5 = mido.parse_string(t3)
        if t2 != text or not same_msg(m.copy(time=0), m5) or \
                'time=' in t3.split(' ', 1)[-1].replace('data=', ''):
            acc.violation(f'format_as_string/{m.type}{dlen}',
                          f'format_as_string = {t2!r} / without time {t3!r} '
                          f'-> {m5!r}; str = {text!r}', case)
    except Exception as e:
        acc.violation(f'str-raises/{m.type}{dlen}/{type(e).__name__}',
                      f'from_str(str({m!r})) raised {e!r}', case)
    try:
        d = m.dict()
        m3 = mido.Message.from_dict(d)
        if not same_msg(m, m3) or d.get('type') != m.type:
            acc.violation(f'dict/{m.type}{dlen}',
                          f'from_dict({d!r}) = {m3!r}, original {m!r}', case)
        if m.type == 'sysex' and type(d['data']) is not list:
            acc.violation('dict/sysex-data-not-list', f'{d!r}', case)
    except Exception as e:
        acc.violation(f'dict-raises/{m.type}{dlen}/{type(e).__name__}',
                      f'from_dict({m!r}.dict()) raised {e!r}', case)
    # results belong to the caller: change them, parse the same input again
    try:
        text = str(m)
        a = mido.Message.from_str(text)
        a.time = 987654
        b2 = mido.Message.from_str(text)
        c2 = mido.parse_string(text)
        d = m.dict()
        e1 = mido.Message.from_dict(d)
        e1.time = 987654
        snap = dict(vars(m))
        d['time'] = 555                  # the dict is the caller's too
        d['scribble'] = 1
        for k0 in list(d):
            if k0 not in ('type', 'time', 'data', 'scribble'):
                d[k0] = 9999
        if m.type == 'sysex':
            d['data'].append(1)
        if dict(vars(m)) != snap:
            acc.violation(f'dict-aliases-message/{m.type}',
                          f'changing the dict returned by {snap}.dict() '
                          f'changed the message to {vars(m)}', case)
            vars(m).clear()
            vars(m).update(snap)
        e2 = mido.Message.from_dict(m.dict())
        if not (same_msg(m, b2) and same_msg(m, c2) and same_msg(m, e2)) \
                or b2 is a or e2 is e1:
            acc.violation(f'aliased-result/{m.type}',
                          f'after changing a message returned by from_str/'
                          f'from_dict for {text!r}, parsing again gave {b2!r} '
                          f'/ {c2!r} / {e2!r}', case)
    except Exception as e:
        acc.violation(f'aliased-result-raises/{m.type}/{type(e).__name__}',
                      f'{e!r}', case)
    if do_repr:
        try:
            r = repr(m)
            m4 = eval(r, dict(ns))
            if not same_msg(m, m4):
                acc.violation(f'repr/{m.type}{dlen}/time:{tclass}',
                              f'eval({r!r}) = {m4!r}', case)
        except Exception as e:
            acc.violation(f'repr-raises/{m.type}{dlen}/{type(e).__name__}',
                          f'eval(repr({m!r})) raised {e!r}', case)
    acc.nontrivial += 1


def check_eval_repr(mido, x, acc, ns, label, eq):
    acc.evals += 1
    acc.nontrivial += 1
    case = {'kind': 'repr', 'label': label}
    try:
        r = repr(x)
        y = eval(r, dict(ns))
    except Exception as e:
        try:
            shown = repr(x)[:200]
        except Exception:
            shown = f'<repr of a {type(x).__name__} raises>'
        acc.violation(f'repr-raises/{label.split("[")[0]}/{type(e).__name__}',
                      f'{label}: eval(repr(x)) raised {e!r} for repr {shown!r}',
                      case)
        return
    if not eq(x, y):
        acc.violation(f'repr/{label.split("[")[0]}',
                      f'{label}: eval({r[:200]!r}) = {y!r:.300}', case)


def track_eq(a, b):
    return (type(a) is type(b) and len(a) == len(b)
            and all(same_msg(x, y) for x, y in zip(a, b)))


def file_eq(a, b):
    return (type(a) is type(b) and a.type == b.type
            and a.ticks_per_beat == b.ticks_per_beat
            and len(a.tracks) == len(b.tracks)
            and all(track_eq(x, y) for x, y in zip(a.tracks, b.tracks)))


def meta_samples(mido):
    MM = mido.MetaMessage
    out = []
    vals = {
        'sequence_number': [{'number': 0}, {'number': 65535}],
        'channel_prefix': [{'channel': 255}], 'midi_port': [{'port': 255}],
        'end_of_track': [{}],
        'set_tempo': [{'tempo': 0}, {'tempo': 16777215}],
        'smpte_offset': [{'frame_rate': 29.97, 'hours': 23, 'minutes': 59,
                          'seconds': 59, 'frames': 255, 'sub_frames': 99}],
        'time_signature': [{'numerator': 255, 'denominator': 2 ** 255},
                           {'denominator': 1}],
        'key_signature': [{'key': k} for k in ('C', 'F#m', 'Cb', 'A#m')],
        'sequencer_specific': [{'data': (0, 255)}, {'data': ()}],
    }
    for t in rm.TEXT_TYPES:
        name = rm.attrs_of(t)[0]
        vals[t] = [{name: ''}, {name: 'a b'}, {name: 'it\'s "q"\n\\x\xe9'},
                   {name: 'x' * 300}]
    for t, lst in vals.items():
        for a in lst:
            for tm in (0, 480, 1.5):
                out.append(MM(t, time=tm, **a))
    out.append(mido.UnknownMetaMessage(0x60, data=(1, 2, 255), time=3))
    out.append(mido.UnknownMetaMessage(0x0A, data=(), time=0))
    out.append(mido.UnknownMetaMessage(0x7E, time=0))
    return out


# ---------------------------------------------------------------- text lines
TYPE_WORDS = ('note_on', 'sysex', 'clock', 'pitchwheel', 'songpos',
              'foo', 'NOTE_ON', 'note', 'type=note_on', '=')
PARAM_WORDS = ('note=1', 'note=', 'note', '=1', 'note=abc', 'note=128',
               'note=-1', 'note=1.0', 'foo=1', 'channel=3', 'channel=16',
               'velocity=5', 'data=(1,2)', 'data=()', 'data=1,2)', 'data=(1,2',
               'data=12', 'data=123', 'data=(128)', 'data=(a)', 'data=(1,,2)',
               'data=(1)', 'time=1.5', 'time=abc', 'time=-2', 'time=1e3',
               'pitch=-8192', 'pitch=8192', 'pos=16383', 'note=0x10',
               'note=1=2', 'type=clock', 'time=', 'data=', 'data=(1,2)x',
               'data=x(1,2)', 'skip_checks=1', 'skip_checks=0', 'note=999',
               # values equal to the defaults
               'channel=0', 'velocity=64', 'note=0', 'time=0', 'pos=0',
               'pitch=0', 'time=0.0', 'velocity=064',
               # one parenthesis only / parentheses around nothing usable
               'data=(12', 'data=12)', 'data=(1', 'data=1)', 'data=(',
               'data=)', 'data=((1))', 'data=(1)(2)', 'data=()()', 'data=(1 ',
               'data=x1)', 'data=(1x')


def ref_parse_line(text):
    """Reference for docs/messages/serializing.rst:
    MESSAGE_TYPE [PARAMETER=VALUE ...], each parameter once, values as
    accepted by Message().  Returns (type, attrs) or None if invalid."""
    words = text.split()
    if not words:
        return None
    type_ = words[0]
    if type_ not in ref.TYPES:
        return None
    allowed = set(ref.attr_names(type_)) | {'time'}
    attrs = {}
    for w in words[1:]:
        if '=' not in w:
            return None
        name, _, value = w.partition('=')
        if name not in allowed or name in attrs:
            return None
        if name == 'time':
            v = _num(value)
            if v is None:
                return None
        elif name == 'data':
            if len(value) < 2 or value[0] != '(' or value[-1] != ')':
                return None
            inner = value[1:-1]
            if inner == '':
                v = ()
            else:
                items = []
                for part in inner.split(','):
                    iv = _int(part)
                    if iv is None or not 0 <= iv <= 127:
                        return None
                    items.append(iv)
                v = tuple(items)
        else:
            v = _int(value)
            if v is None:
                return None
            lo, hi = ref.RANGES[name]
            if not lo <= v <= hi:
                return None
        attrs[name] = v
    return type_, attrs


def _int(s):
    s2 = s[1:] if s[:1] == '-' else s
    if s2.isdigit() and s2.isascii():
        return int(s)
    return None


def _num(s):
    v = _int(s)
    if v is not None:
        return v
    try:
        if any(c in s for c in '_ \t') or not s:
            return None
        return float(s)
    except ValueError:
        return None


def expected_message(mido, parsed):
    type_, attrs = parsed
    return mido.Message(type_, **attrs)


def check_line(mido, text, acc):
    acc.evals += 1
    acc.nontrivial += 1
    parsed = ref_parse_line(text)
    case = {'kind': 'line', 'text': text}
    try:
        m = mido.parse_string(text)
    except ValueError:
        if parsed is not None:
            acc.violation('line/rejected-valid/' + _lclass(text),
                          f'parse_string({text!r}) raised ValueError; '
                          f'reference parses it as {parsed}', case)
        return
    except Exception as e:
        acc.violation(f'line/{type(e).__name__}/' + _lclass(text),
                      f'parse_string({text!r}) raised {e!r}; ValueError is '
                      f'the documented failure', case)
        return
    if parsed is None:
        acc.violation('line/accepted-invalid/' + _lclass(text),
                      f'parse_string({text!r}) returned {m!r} for text that '
                      f'is not a valid message', case)
    elif not same_msg(m, expected_message(mido, parsed)):
        acc.violation('line/wrong-message/' + _lclass(text),
                      f'parse_string({text!r}) = {m!r}, reference {parsed}',
                      case)


def _lclass(text):
    words = text.split()
    if not words:
        return 'empty'
    if words[0] not in ref.TYPES:
        return 'unknown-type'
    names = [w.partition('=')[0] for w in words[1:]]
    if len(set(names)) != len(names):
        return 'duplicate-parameter'
    for w in words[1:]:
        if w.startswith('data'):
            return 'data:' + ('parens' if w.endswith(')') and '(' in w
                              else 'malformed')
    return 'other'


# ---------------------------------------------------------------- streams
STREAM_LINES = (
    ('valid', 'note_on channel=1 note=2 velocity=3 time=4'),
    ('valid+comment', 'clock time=0  # tick'),
    ('valid-indented', '   songpos pos=5   '),
    ('blank', ''), ('blank-ws', '   \t'), ('comment', '# just a comment'),
    ('comment-indented', '   # x'),
    ('bad-type', 'foo note=1'), ('bad-value', 'note_on note=abc'),
    ('bad-range', 'note_on note=128'), ('bad-noeq', 'note_on note'),
    ('bad-attr', 'clock note=1'), ('bad-data', 'sysex data=(1,2'),
    ('bad-dup', 'note_on note=1 note=2'), ('valid-sysex', 'sysex data=(1,2,3)'),
    ('bad-commented-type', 'foo # note_on'),
)


def check_stream(mido, idxs, acc, nl):
    lines = [STREAM_LINES[i][1] + nl for i in idxs]
    acc.evals += 1
    acc.nontrivial += 1
    want = []
    for n, i in enumerate(idxs, 1):
        text = STREAM_LINES[i][1].split('#')[0].strip()
        if not text:
            continue
        parsed = ref_parse_line(text)
        want.append(('msg', expected_message(mido, parsed)) if parsed
                    else ('err', n))
    case = {'kind': 'stream', 'lines': [STREAM_LINES[i][0] for i in idxs],
            'idx': list(idxs), 'nl': nl}
    kinds = 'lines'
    try:
        got = list(mido.parse_string_stream(iter(lines)))
    except Exception as e:
        acc.violation(f'stream/aborted/{type(e).__name__}/{kinds}',
                      f'stream {lines} raised {e!r} instead of reporting '
                      f'(None, error)', case)
        return
    ok = len(got) == len(want)
    if not ok:
        kinds = 'count'
    why = f'{len(got)} results, expected {len(want)}'
    if ok:
        for (g_msg, g_err), (k, w) in zip(got, want):
            if k == 'msg':
                if g_err is not None or g_msg is None or not same_msg(g_msg, w):
                    ok, why = False, f'got ({g_msg!r}, {g_err!r}), expected {w!r}'
                    kinds = 'valid-line'
                    break
            else:
                if g_msg is not None or not isinstance(g_err, str) or \
                        not g_err.startswith(f'line {w}:'):
                    ok, why = False, (f'got ({g_msg!r}, {g_err!r}), expected '
                                      f"(None, 'line {w}: ...')")
                    kinds = 'error-line/' + STREAM_LINES[idxs[w - 1]][0]
                    break
    if not ok:
        acc.violation(f'stream/wrong-output/{kinds}',
                      f'stream {lines}: {why}', case)


def worker(shard):
    mido = common.import_mido()
    acc = Acc()
    ns = namespace(mido)
    kind = shard[0]
    if kind == 'msgs':
        type_, full = shard[1], shard[2]
        if type_ == 'sysex':
            datas = [(), (0,), (127, 0), (1, 2, 3), tuple(range(128)) + (5,) * 72]
            for i, d in enumerate(datas):
                for t in TIMES:
                    check_message(mido, mido.Message('sysex', data=d, time=t),
                                  acc, ns)
                # the same after the data was ASSIGNED in other sequence types
                for conv in (list, bytearray, bytes, iter):
                    m = mido.Message('sysex', time=1)
                    if conv is iter and not d:
                        continue
                    try:
                        m.data = conv(d) if conv is not iter else list(d)
                        m.data += [1]
                    except Exception as e:
                        acc.violation(f'assign-data-raises/{conv.__name__}',
                                      f'{e!r}', {'kind': 'assign'})
                        continue
                    check_message(mido, m, acc, ns)
                    # built through the other doors: the skip_checks option,
                    # the decoder, copy with overrides
                    try:
                        others = [
                            mido.Message('sysex', skip_checks=True, time=1,
                                         data=conv(d) if conv is not iter
                                         else iter(list(d))),
                            mido.Message('sysex', time=3).copy(
                                data=conv(d) if conv is not iter
                                else iter(list(d))),
                            mido.Message.from_bytes(
                                [0xF0, *d, 0xF7], time=2),
                            mido.Message.from_dict(
                                {'type': 'sysex', 'data': list(d), 'time': 4}),
                        ]
                    except Exception as e:
                        acc.violation(f'construct-raises/{conv.__name__}',
                                      f'{e!r}', {'kind': 'assign'})
                        continue
                    for o in others:
                        check_message(mido, o, acc, ns)
        else:
            names = ref.attr_names(type_)
            if full:
                i = 0
                for attrs in ref.all_messages_of(type_):
                    t = TIMES[i % len(TIMES)]
                    i += 1
                    check_message(mido, mido.Message(type_, time=t, **attrs),
                                  acc, ns, do_repr=(i % 16 == 0))
            else:
                doms = []
                for n in names:
                    lo, hi = ref.RANGES[n]
                    doms.append(sorted({lo, lo + 1, (lo + hi) // 2, -1 if lo < 0
                                        else hi - 1, hi}))
                for combo in itertools.product(*doms):
                    for t in TIMES:
                        check_message(mido, mido.Message(
                            type_, time=t, **dict(zip(names, combo))), acc, ns)
        acc.sample({'type': type_, 'times': [repr(t) for t in TIMES]}, cap=1)
    elif kind == 'containers':
        from mido.frozen import freeze_message
        metas = meta_samples(mido)
        for mm in metas:
            check_eval_repr(mido, mm, acc, ns, f'{type(mm).__name__}:{mm.type}',
                            same_msg)
            fm = freeze_message(mm)
            check_eval_repr(mido, fm, acc, ns, f'{type(fm).__name__}:{mm.type}',
                            same_msg)
        msgs = [mido.Message('note_on', note=1, time=2),
                mido.Message('sysex', data=(1, 2), time=0.5),
                mido.Message('sysex', data=()),
                mido.MetaMessage('text', text='a\nb'),
                mido.UnknownMetaMessage(0x60, data=(1,)),
                mido.MetaMessage('end_of_track')]
        for m in msgs:
            check_eval_repr(mido, freeze_message(m), acc, ns,
                            f'frozen:{m.type}', same_msg)
        tracks = []
        for n in range(0, 5):
            for combo in itertools.product(range(len(msgs)), repeat=n):
                if n >= 3 and combo[0] != combo[-1] and n > 3:
                    continue
                tr = mido.MidiTrack(msgs[i].copy() for i in combo)
                tracks.append(tr)
                check_eval_repr(mido, tr, acc, ns, f'MidiTrack[len={n}]',
                                track_eq)
        small = [t for t in tracks if len(t) <= 2]
        for type_, tpb in ((0, 1), (1, 480), (2, 32767)):
            check_eval_repr(mido, mido.MidiFile(type=type_, ticks_per_beat=tpb),
                            acc, ns, 'MidiFile[tracks=0]', file_eq)
            for a in small:
                check_eval_repr(mido, mido.MidiFile(
                    type=type_, ticks_per_beat=tpb, tracks=[a]), acc, ns,
                    f'MidiFile[tracks=1,len={len(a)}]', file_eq)
                for b in small[:8]:
                    check_eval_repr(mido, mido.MidiFile(
                        type=type_, ticks_per_beat=tpb, tracks=[a, b]), acc, ns,
                        f'MidiFile[tracks=2,len={len(a)}+{len(b)}]', file_eq)
        # long content inside containers: every meta sample and long
        # text/sysex/data, alone, doubled, among notes, in long tracks and in
        # files with several tracks
        MM = mido.MetaMessage
        longs = list(metas) + [
            MM('text', text='lorem ipsum ' * 20),
            MM('lyrics', text=' ' * 150),
            MM('marker', text="it's a \"quoted\" phrase, " * 12, time=7),
            MM('track_name', name=('word ' * 23).strip()),
            MM('text', text='x' * 119 + ' ' + 'y' * 119),
            MM('copyright', text='line one\nline two ' * 15),
            MM('sequencer_specific', data=tuple(range(256)) * 2),
            mido.UnknownMetaMessage(0x60, data=(7,) * 300, time=1),
            mido.Message('sysex', data=(1, 2, 3) * 200, time=2),
            mido.Message('sysex', data=(0,) * 1000),
        ]
        note = mido.Message('note_on', note=60, time=1)
        for x in longs:
            label = f'long:{x.type}'
            variants = [[x], [x, x.copy()], [note.copy(), x],
                        [x, MM('end_of_track')],
                        [note.copy(), x, note.copy(), x.copy(), note.copy()]]
            for v in variants:
                tr = mido.MidiTrack(m.copy() for m in v)
                check_eval_repr(mido, tr, acc, ns,
                                f'MidiTrack[{label},len={len(v)}]', track_eq)
                check_eval_repr(mido, mido.MidiFile(tracks=[
                    tr, mido.MidiTrack([note.copy()]),
                    mido.MidiTrack(m.copy() for m in v)]), acc, ns,
                    f'MidiFile[{label},tracks=3]', file_eq)
        for n in (5, 6, 10, 17, 100, 1000):
            tr = mido.MidiTrack(
                longs[i % len(longs)].copy() if i % 7 == 3
                else mido.Message('note_on', note=i % 128, time=i % 5)
                for i in range(n))
            check_eval_repr(mido, tr, acc, ns, f'MidiTrack[len={n}]', track_eq)
            check_eval_repr(mido, mido.MidiFile(
                type=1, tracks=[tr] + [mido.MidiTrack(tr[:k])
                                        for k in range(min(n, 9))]),
                acc, ns, f'MidiFile[tracks={1 + min(n, 9)},len={n}]', file_eq)
        acc.sample({'containers': 'meta messages, frozen variants, tracks of '
                    'length 0..4, files with 0..2 tracks; long text / data in '
                    'tracks; tracks of up to 1000 messages; files of up to 10 '
                    'tracks'}, cap=1)
    elif kind == 'lines':
        first = shard[1]
        check_line(mido, first, acc)
        for w1 in PARAM_WORDS:
            check_line(mido, f'{first} {w1}', acc)
            for w2 in PARAM_WORDS:
                check_line(mido, f'{first} {w1} {w2}', acc)
        acc.sample({'line': f'{first} {PARAM_WORDS[0]} {PARAM_WORDS[12]}'},
                   cap=1)
    elif kind == 'lines-misc':
        for t in ('', ' ', '\t\n', '\n'):
            check_line(mido, t, acc)
        for type_ in ref.TYPES:
            check_line(mido, type_, acc)
            check_line(mido, f'  {type_}   time=3  ', acc)
            check_line(mido, f'{type_} time=1 time=2', acc)
    elif kind == 'streams':
        first, n = shard[1], shard[2]
        for k in range(0, n):
            for rest in itertools.product(range(len(STREAM_LINES)), repeat=k):
                check_stream(mido, (first,) + rest, acc,
                             '\n' if (sum(rest) + first) % 2 else '')
        acc.sample({'stream_first_line': STREAM_LINES[first][0],
                    'max_lines': n}, cap=1)
    return acc


def run():
    common.import_mido()
    thorough = common.tier() == 'thorough'
    rep = Report(PROP, 'exploration',
                 'exhaustive enumeration of messages/containers through '
                 'str/dict/repr round trips and of text lines and line '
                 'streams over a word alphabet against a reference grammar')
    shards = [('containers',), ('lines-misc',)]
    for t in ref.TYPES:
        shards.append(('msgs', t, thorough and t != 'sysex'))
    shards += [('lines', w) for w in TYPE_WORDS]
    nstream = 4 if thorough else 3
    shards += [('streams', i, nstream) for i in range(len(STREAM_LINES))]
    run_shards(worker, shards, rep)
    rep.coverage['exhaustive'] = True
    rep.coverage['rule'] = (
        ('every one of the 1.33M non-sysex messages' if thorough else
         'every combination of {lo, lo+1, mid, hi-1, hi} per attribute of '
         'every type') +
        f' x times {[repr(t) for t in TIMES]} (rotating in the full sweep), '
        f'sysex data lengths 0,1,2,3,200: from_str(str(m)), parse_string, '
        f'from_dict(m.dict()), eval(repr(m)); eval(repr(x)) for ~180 meta '
        f'messages (all types, boundary values, quotes/newlines in text), '
        f'frozen variants, tracks of length 0..4, files with 0..2 tracks. '
        f'Text lines: every line of <= 3 words from {len(TYPE_WORDS)} first '
        f'words x {len(PARAM_WORDS)} parameter words judged by a reference '
        f'grammar (VALID => that message, INVALID => exactly ValueError). '
        f'Streams: every sequence of <= {nstream} lines from '
        f'{len(STREAM_LINES)} line kinds: (msg, None) / (None, "line <n>: '
        f'...") per non-blank line, in order, never aborting')
    rep.assumptions += [
        'numeric literals restricted to plain decimal forms (the docs do not '
        'define +5, 1_0, 0x10 beyond "as accepted by Message()"; 0x10 and '
        '1.0 are judged invalid for integer parameters)',
        'bool/inf/nan times are outside the statement (finite time)',
    ]
    return rep


def check_case(case):
    mido = common.import_mido()
    acc = Acc()
    ns = namespace(mido)
    if case['kind'] == 'message':
        attrs = dict(case['attrs'])
        if 'data' in attrs:
            attrs['data'] = tuple(attrs['data'])
        check_message(mido, mido.Message(case['type'], **attrs), acc, ns)
    elif case['kind'] == 'line':
        check_line(mido, case['text'], acc)
    elif case['kind'] == 'stream':
        check_stream(mido, tuple(case['idx']), acc, case['nl'])
    else:
        return [(k, v[0][1]) for k, v in worker(('containers',)).viol.items()]
    return [(k, v[0][1]) for k, v in acc.viol.items()]


def replay(path):
    from ..replay import generic_replay
    return generic_replay(PROP, path, check_case)
