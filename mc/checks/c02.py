"""C02 - from_bytes accepts exactly the well-formed single-message encodings
(E1: every integer sequence of length 0..3 over 0..255, longer ones over a
boundary alphabet, ill-typed and out-of-range items)."""
import array
import itertools

from .. import common
from ..engine_enum import Acc, run_shards
from ..evidence import Report
from ..ref import midi as ref

PROP = 'C02'
BOUNDARY = (0x00, 0x7F, 0x80, 0x90, 0xC0, 0xE0, 0xF0, 0xF1, 0xF2, 0xF4, 0xF6,
            0xF7, 0xF8, 0xFF)
OUT_OF_BYTE = (-1, 256, 2 ** 31, -2 ** 63)
NON_INT = (1.0, '1', None, b'a', 1 + 0j, [1], 0.5)
TEMPLATES = ([0x90, 1, 2], [0xC3, 5], [0xE1, 1, 2], [0xF0, 1, 2, 0xF7],
             [0xF1, 0x23], [0xF2, 1, 2], [0xF3, 4], [0xF6], [0xF8], [0xFF],
             [0xF0, 0xF7])


def sclass(st):
    if not isinstance(st, int) or isinstance(st, bool):
        return 'nonint'
    if st < 0 or st > 255:
        return 'outofbyte'
    if st < 0x80:
        return 'data'
    if st < 0xF0:
        return '%Xx' % (st >> 4)
    return '%02X' % st


def judge(mido, seq, arg, form, allow_type_error=False, time=0):
    """Call from_bytes(arg) and compare with the reference acceptor applied to
    ``seq`` (list of ints).  Return None or (key, what)."""
    exp = ref.decode(seq) if seq is not None else ref.INVALID
    try:
        m = mido.Message.from_bytes(arg, time=time)
    except ValueError:
        got = 'ValueError'
    except TypeError:
        got = 'TypeError'
    except Exception as e:
        cls = sclass(seq[0]) if seq else ('empty' if seq is not None else 'x')
        n = len(seq) if seq is not None else len(arg)
        return (f'{form}/status={cls}/len={n}/{type(e).__name__}',
                f'from_bytes({arg!r}) raised {e!r}; only ValueError '
                f'(TypeError for non-integers) is allowed')
    else:
        got = m
    if exp is ref.INVALID:
        if isinstance(got, str) and (got == 'ValueError' or (
                allow_type_error and got == 'TypeError')):
            return None
        cls = sclass(seq[0]) if seq else 'empty'
        n = len(seq) if seq is not None else len(arg)
        if isinstance(got, str):
            return (f'{form}/status={cls}/len={n}/TypeError-for-ints',
                    f'from_bytes({arg!r}) raised TypeError for integer items')
        return (f'{form}/status={cls}/len={n}/accepted-invalid',
                f'from_bytes({arg!r}) returned {got!r} for input that is not '
                f'exactly one complete message')
    # valid
    type_, attrs = exp
    cls = sclass(seq[0])
    if isinstance(got, str):
        return (f'{form}/status={cls}/len={len(seq)}/rejected-valid',
                f'from_bytes({arg!r}) raised {got} for a well-formed message')
    want = dict(attrs, type=type_, time=time)
    if vars(got) != want or got.bytes() != list(seq):
        return (f'{form}/status={cls}/len={len(seq)}/wrong-message',
                f'from_bytes({arg!r}) = {got!r} with bytes {got.bytes()}, '
                f'reference {want}')
    return None


def worker(shard):
    mido = common.import_mido()
    acc = Acc()
    kind = shard[0]
    if kind == 'full':          # every sequence starting with st, length 1..3
        st, data_alpha = shard[1], shard[2]
        cases = [[st]]
        alpha = range(256) if data_alpha is None else data_alpha
        cases += [[st, a] for a in range(256)]
        for seq in cases:
            _one(mido, acc, seq, seq, 'list')
            _one(mido, acc, seq, bytes(seq), 'bytes')
            _one(mido, acc, seq, bytearray(seq), 'bytearray')
            _one(mido, acc, seq, tuple(seq), 'tuple')
            _one(mido, acc, seq, memoryview(bytes(seq)), 'memoryview')
            _one(mido, acc, seq, array.array('B', seq), 'array')
            hx = ' '.join('%02X' % b for b in seq)
            _hex(mido, acc, seq, hx)
        for a in alpha:
            for b in alpha:
                seq = [st, a, b]
                _one(mido, acc, seq, seq, 'list')
        acc.sample({'first_byte': st, 'lengths': [1, 2, 3]}, cap=1)
    elif kind == 'long':        # length n over the boundary alphabet
        first, n = shard[1], shard[2]
        for rest in itertools.product(BOUNDARY, repeat=n - 1):
            seq = [first, *rest]
            _one(mido, acc, seq, seq, 'list')
        acc.sample({'first_byte': first, 'length': n,
                    'alphabet': list(BOUNDARY)}, cap=1)
    elif kind == 'odd':
        _odd(mido, acc)
    elif kind == 'sysexlen':
        _sysex_lengths(mido, acc, shard[1])
    return acc


SYSEX_LENGTHS = tuple(range(0, 42)) + (47, 48, 49, 63, 64, 65, 127, 128, 129,
                                        255, 256, 257, 1000, 1024, 4099)
SYSEX_BAD_INT = (0x80, 0xF7, 0xF0, 0xF8, 0xFF, 256, -1, 1 << 64)
SYSEX_BAD_OTHER = (1.0, '1', None, b'\x01', (1,))


def _sysex_lengths(mido, acc, n):
    """Sysex messages with n data bytes: the well-formed one is accepted, and
    one bad item (status byte, out of byte range, non-integer) at any position
    makes it rejected - for every position when n <= 130, else near both ends
    and around every multiple of 8/64/256 (bulk checks live there)."""
    good = [0xF0] + [(i * 7) & 0x7F for i in range(n)] + [0xF7]
    for form, conv in (('list', list), ('tuple', tuple), ('bytes', bytes),
                       ('bytearray', bytearray),
                       ('memoryview', lambda q: memoryview(bytes(q))),
                       ('array', lambda q: array.array('B', q)),
                       ('array-h', lambda q: array.array('h', q))):
        _one(mido, acc, good, conv(good), form + '-sysexlen')
    if n <= 130:
        positions = range(1, n + 2)
    else:
        positions = sorted({p for p in range(1, n + 2)
                            if p <= 17 or p >= n - 17
                            or p % 64 in (0, 1, 63) or (p - 1) % 256 in (0, 1, 255)})
    for pos in positions:
        for bad in SYSEX_BAD_INT:
            if pos == n + 1 and bad == 0xF7:
                continue
            seq = list(good)
            seq[pos] = bad
            acc.evals += 1
            acc.nontrivial += 1
            r = judge(mido, seq, seq, 'list-sysexlen')
            if r is None and 0 <= bad <= 255:
                r = judge(mido, seq, bytes(seq), 'bytes-sysexlen')
            if r is None:
                r = judge(mido, seq, tuple(seq), 'tuple-sysexlen')
            if r is not None:
                acc.violation(r[0], r[1] + f' (bad item at {pos} of {n + 2})',
                              {'kind': 'seq', 'seq': seq, 'form': 'list'})
        for bad in SYSEX_BAD_OTHER:
            arg = list(good)
            arg[pos] = bad
            acc.evals += 1
            acc.nontrivial += 1
            r = judge(mido, None, arg, 'list-sysexlen-nonint',
                      allow_type_error=True)
            if r is not None:
                acc.violation(r[0], r[1] + f' (bad item at {pos} of {n + 2})',
                              {'kind': 'sysexlen', 'n': n, 'pos': pos,
                               'bad': repr(bad)})
    # an extra byte after the end, a missing end
    for seq in (good + [0], good + [0xF7], good[:-1], good[:-1] + [0x7F]):
        _one(mido, acc, seq, seq, 'list-sysexlen')
    acc.sample({'sysex_data_bytes': n, 'bad_items': [repr(b) for b in
               SYSEX_BAD_INT + SYSEX_BAD_OTHER]}, cap=1)


def _one(mido, acc, seq, arg, form):
    acc.evals += 1
    r = judge(mido, seq, arg, form)
    # non-trivial: the reference accepts it, or it has a status first byte
    if seq and seq[0] >= 0x80:
        acc.nontrivial += 1
    if r is not None:
        acc.violation(r[0], r[1], {'kind': 'seq', 'seq': list(seq),
                                   'form': form})
    elif ref.decode(seq) is not ref.INVALID:
        acc.count('accepted_valid')


def _hex(mido, acc, seq, text):
    acc.evals += 1
    exp = ref.decode(seq)
    try:
        m = mido.Message.from_hex(text)
        got = m
    except ValueError:
        got = 'ValueError'
    except Exception as e:
        acc.violation(f'from_hex/status={sclass(seq[0])}/len={len(seq)}/'
                      f'{type(e).__name__}',
                      f'from_hex({text!r}) raised {e!r}',
                      {'kind': 'hex', 'text': text})
        return
    if exp is ref.INVALID:
        if not isinstance(got, str):
            acc.violation(f'from_hex/status={sclass(seq[0])}/len={len(seq)}/'
                          'accepted-invalid',
                          f'from_hex({text!r}) returned {got!r}',
                          {'kind': 'hex', 'text': text})
    else:
        if isinstance(got, str) or got.bytes() != list(seq):
            acc.violation(f'from_hex/status={sclass(seq[0])}/len={len(seq)}/'
                          'wrong', f'from_hex({text!r}) gave {got!r}',
                          {'kind': 'hex', 'text': text})


BAD_HEX = ('9', '9 0', '90 1 2', '90 0G 00', 'xyz', '90,01,02', '0x90 01 02',
           '90 01 02 ', ' 90 01 02', '9001 02', '90\t01\n02', '', ' ',
           'F0 01 F7 F7', 'F0 01', 'f0 01 f7', '90 01', 'F4', '+9 01 02',
           '90 -1 02')


def _odd(mido, acc):
    """Out-of-byte-range and non-integer items at every position of one
    template per status family; malformed hex text; empty input forms."""
    for tmpl in TEMPLATES:
        for pos in range(len(tmpl)):
            for bad in OUT_OF_BYTE:
                seq = list(tmpl)
                seq[pos] = bad
                acc.evals += 1
                acc.nontrivial += 1
                r = judge(mido, seq, seq, 'list-outofbyte')
                if r is not None:
                    acc.violation(r[0], r[1], {'kind': 'seq', 'seq': seq,
                                               'form': 'list-outofbyte'})
            for bad in NON_INT:
                arg = list(tmpl)
                arg[pos] = bad
                acc.evals += 1
                acc.nontrivial += 1
                r = judge(mido, None, arg, 'list-nonint',
                          allow_type_error=True)
                if r is not None:
                    acc.violation(r[0], r[1], {'kind': 'nonint',
                                               'template': tmpl, 'pos': pos,
                                               'bad': repr(bad)})
    # history dependence: decode a valid message first, then the "same"
    # sequence with one item replaced by an equal non-integer (60.0 == 60,
    # Fraction(60) == 60, Decimal(60) == 60 hash alike) - must still be
    # rejected; then the valid one again must still decode.
    from decimal import Decimal
    from fractions import Fraction
    for tmpl in TEMPLATES:
        for rounds in range(2):
            r = judge(mido, list(tmpl), list(tmpl), 'list')
            acc.evals += 1
            if r is not None:
                acc.violation('history/' + r[0], r[1],
                              {'kind': 'seq', 'seq': list(tmpl), 'form': 'list'})
            for pos in range(len(tmpl)):
                for conv in (float, Fraction, Decimal):
                    arg = list(tmpl)
                    arg[pos] = conv(tmpl[pos])
                    acc.evals += 1
                    acc.nontrivial += 1
                    r = judge(mido, None, arg, 'list-equal-nonint',
                              allow_type_error=True)
                    if r is not None:
                        acc.violation('history/' + r[0], r[1],
                                      {'kind': 'nonint', 'template': tmpl,
                                       'pos': pos, 'bad': conv.__name__})
    for empty in ([], (), b'', bytearray()):
        acc.evals += 1
        r = judge(mido, [], empty, 'empty')
        if r is not None:
            acc.violation(r[0], r[1], {'kind': 'seq', 'seq': [],
                                       'form': 'empty'})
    for text in BAD_HEX:
        acc.evals += 1
        acc.nontrivial += 1
        # what the text denotes under the documented format (two-digit hex
        # separated by whitespace), if anything
        import re
        toks = text.split()
        if toks and all(re.fullmatch(r'[0-9A-Fa-f]{2}', t) for t in toks):
            seq = [int(t, 16) for t in toks]
            exp = ref.decode(seq)
        else:
            seq, exp = None, ref.INVALID
        try:
            m = mido.Message.from_hex(text)
        except ValueError:
            if exp is not ref.INVALID:
                acc.violation('from_hex/text/rejected-valid',
                              f'from_hex({text!r}) raised ValueError',
                              {'kind': 'hex', 'text': text})
        except Exception as e:
            acc.violation(f'from_hex/text/{type(e).__name__}',
                          f'from_hex({text!r}) raised {e!r}',
                          {'kind': 'hex', 'text': text})
        else:
            # bytearray.fromhex also accepts digit pairs run together
            # ('9001 02'); accept any result whose bytes() re-render the hex
            # digits of the text.
            digits = re.sub(r'\s', '', text).upper()
            if m.hex('') != digits:
                acc.violation('from_hex/text/accepted-invalid',
                              f'from_hex({text!r}) returned {m!r}',
                              {'kind': 'hex', 'text': text})
    # from_hex with the sep option: any separator string (regex
    # metacharacters included) on well-formed and malformed text - a message
    # whose bytes reproduce the input, or ValueError, nothing else
    from .c01 import SEPS
    for sep in SEPS:
        for tmpl in TEMPLATES:
            ok = ref.decode(list(tmpl)) is not ref.INVALID
            texts = [(sep.join('%02X' % b for b in tmpl), ok),
                     (sep.join('%02X' % b for b in tmpl[:-1]) if len(tmpl) > 1
                      else 'F', False),
                     (sep.join('%02X' % b for b in tmpl) + sep + 'GG', False)]
            for text, valid in texts:
                acc.evals += 1
                acc.nontrivial += 1
                case = {'kind': 'hexsep', 'text': text, 'sep': sep}
                try:
                    m = mido.Message.from_hex(text, sep=sep)
                except ValueError:
                    if valid:
                        acc.violation('from_hex-sep/rejected-valid',
                                      f'from_hex({text!r}, sep={sep!r}) raised '
                                      f'ValueError', case)
                except Exception as e:
                    acc.violation(f'from_hex-sep/{type(e).__name__}',
                                  f'from_hex({text!r}, sep={sep!r}) raised '
                                  f'{e!r}', case)
                else:
                    if not valid and m.bytes() != list(tmpl):
                        acc.violation('from_hex-sep/accepted-invalid',
                                      f'from_hex({text!r}, sep={sep!r}) = {m!r}',
                                      case)
                    elif valid and m.bytes() != list(tmpl):
                        acc.violation('from_hex-sep/wrong',
                                      f'from_hex({text!r}, sep={sep!r}) = {m!r}',
                                      case)
    acc.sample({'odd_items': [repr(x) for x in OUT_OF_BYTE + NON_INT],
                'templates': [list(t) for t in TEMPLATES]}, cap=1)


QUICK_DATA = None   # quick also covers the full 0..255 alphabet at length 3


def run():
    common.import_mido()
    thorough = common.tier() == 'thorough'
    rep = Report(PROP, 'exploration',
                 'exhaustive enumeration of all integer sequences of length '
                 '<= 3 (and longer over a boundary alphabet) against a '
                 'reference acceptor')
    shards = [('full', st, None) for st in range(256)]
    shards += [('long', first, 4) for first in BOUNDARY]
    shards += [('long', first, 5) for first in BOUNDARY]
    if thorough:
        shards += [('long', first, 6) for first in BOUNDARY]
    # The odd-item / history probes run first, in this fresh process, so that
    # any module-level state in the decoder (caches, scratch buffers) is cold;
    # they run a second time in a worker whose state is warm.
    run_shards(worker, [('odd',)], rep, procs=1)
    shards.append(('odd',))
    shards += [('sysexlen', n) for n in SYSEX_LENGTHS]
    run_shards(worker, shards, rep)
    # the empty sequence
    rep.coverage['exhaustive'] = True
    rep.coverage['rule'] = (
        'every sequence of 1..3 integers over 0..255 as list (16 843 008) '
        'and, for length <= 2, also as bytes/bytearray/tuple and as hex '
        'text; the empty input in 4 forms; every sequence of length 4,5'
        + (',6' if thorough else '') + ' over the 14-symbol boundary alphabet '
        + repr([hex(b) for b in BOUNDARY]) + '; out-of-byte ints and '
        'non-integers at every position of 11 templates; malformed hex; '
        'sysex messages with n data bytes for n in 0..41 and around 48, 64, '
        '128, 256, 1000, 1024, 4099 with one status/out-of-range/non-integer '
        'item at each position (near both ends and block boundaries for '
        'n > 130). '
        'Oracle: independent reference acceptor. Non-trivial = first item is '
        'a status byte (>= 0x80) or the case is an ill-typed/odd item; every '
        'enumerated case is distinct by construction')
    rep.assumptions += [
        'sequences longer than 3 are covered only over the boundary alphabet',
        'bool items are outside the alphabet (bool is an Integral in Python)',
    ]
    rep.require(rep.coverage.get('accepted_valid', 0) > 1000000,
                'reference accepted too few inputs (oracle vacuous)')
    return rep


def check_case(case):
    mido = common.import_mido()
    acc = Acc()
    if case['kind'] == 'seq':
        seq = case['seq']
        form = case['form']
        arg = {'bytes': bytes, 'bytearray': bytearray, 'tuple': tuple,
               'memoryview': lambda q: memoryview(bytes(q)),
               'array': lambda q: array.array('B', q)}.get(
            form.split('-')[0], list)(seq)
        _one(mido, acc, seq, arg, form)
    elif case['kind'] == 'hex':
        toks = case['text'].split()
        try:
            seq = [int(t, 16) for t in toks]
        except ValueError:
            seq = [0]
        _hex(mido, acc, seq, case['text'])
    elif case['kind'] == 'sysexlen':
        _sysex_lengths(mido, acc, case['n'])
    else:
        _odd(mido, acc)
    return [(k, v[0][1]) for k, v in acc.viol.items()]


def replay(path):
    from ..replay import generic_replay
    return generic_replay(PROP, path, check_case)
