"""C18 - socket ports deliver exactly the complete messages before a
disconnect (E3: crash-point enumeration on real sockets)."""
import itertools
import select
import socket
import time as _time

from .. import common
from ..engine_enum import Acc, run_shards
from ..evidence import Report
from .parser_common import hexs, sigs
from .ports_common import Endless, Horizon, install_seams, take

PROP = 'C18'


def alphabet(mido):
    M = mido.Message
    return [M('note_on', channel=1, note=60, velocity=1),
            M('program_change', channel=2, program=5),
            M('sysex', data=()),
            M('sysex', data=(1, 2)),
            M('clock'),
            M('songpos', pos=300),
            M('tune_request')]


def compositions(n, max_cuts=None):
    if n == 0:
        yield ()
        return
    if max_cuts is None:
        for mask in range(1 << (n - 1)):
            yield tuple(i + 1 for i in range(n - 1) if mask >> i & 1)
    else:
        for r in range(0, max_cuts + 1):
            yield from itertools.combinations(range(1, n), r)


def run_one(mido, tshim, stream, cut, cuts, consume, how_close, acc, label):
    """One execution: feed stream[:cut] in the given segmentation with the
    given consumption calls, then the peer disconnects; iterate the port."""
    a, b = socket.socketpair()
    acc.evals += 1
    case = {'kind': 'cut', 'stream': list(stream), 'cut': cut,
            'segments': list(cuts), 'consume': list(consume),
            'close': how_close}
    port = None
    sleeps = [0]

    def on_sleep(sec):
        sleeps[0] += 1
        if sleeps[0] > 40:
            raise Horizon()

    tshim.on_sleep = on_sleep
    try:
        port = mido.sockets.SocketPort('peer', 1, conn=a)
        got = []
        prefix = bytes(stream[:cut])
        bounds = (0,) + tuple(cuts) + (len(prefix),)
        for i in range(len(bounds) - 1):
            seg = prefix[bounds[i]:bounds[i + 1]]
            if seg:
                b.sendall(seg)
            c = consume[i] if i < len(consume) else 0
            if c == 1:
                m = port.poll()
                if m is not None:
                    got.append(m)
            elif c == 2:
                got.extend(take(port.iter_pending()))
        if how_close == 'close':
            b.close()
        else:
            b.shutdown(socket.SHUT_WR)
        try:
            for m in port:
                got.append(m)
        except Horizon:
            acc.violation('iteration-did-not-end',
                          f'{label}: iteration kept polling after the peer '
                          f'disconnected', case)
            return
        except Exception as e:
            acc.violation(f'iteration-raised/{type(e).__name__}',
                          f'{label}: iterating raised {e!r} after the peer '
                          f'disconnected', case)
            return
        want = sigs(mido.parse_all(list(prefix)))
        inside = cut < len(stream) and sigs(
            mido.parse_all(list(stream[:cut]))) != sigs(
            mido.parse_all(list(stream[:cut + 1])))[:len(want) + 1][:len(want)] \
            if False else None
        if sigs(got) != want:
            kind = ('partial-or-corrupt' if len(got) >= len(want)
                    else 'lost')
            acc.violation(f'messages/{kind}',
                          f'{label}: stream {hexs(stream)} cut at {cut}, '
                          f'segments {cuts}, consume {consume}: received '
                          f'{got!r}, expected {want}', case)
            return
        if not port.closed:
            acc.violation('not-closed-after-disconnect',
                          f'{label}: port.closed is False after the peer '
                          f'disconnected and iteration ended', case)
    finally:
        tshim.on_sleep = None
        try:
            if port is not None:
                port.close()
        except Exception:
            pass
        for s in (a, b):
            try:
                s.close()
            except OSError:
                pass


def check_close_seen_by_peer(mido, acc):
    """port.close() must be seen by the peer as a disconnect, while the port
    object is still referenced."""
    for prior in ('nothing', 'sent', 'received'):
        a, b = socket.socketpair()
        acc.evals += 1
        acc.nontrivial += 1
        port = mido.sockets.SocketPort('peer', 1, conn=a)
        try:
            if prior == 'sent':
                port.send(mido.Message('clock'))
                b.recv(10)
            elif prior == 'received':
                b.sendall(bytes([0xF8]))
                port.poll()
            port.close()
            r, _, _ = select.select([b], [], [], 0.5)
            data = b.recv(10) if r else None
            if data != b'':
                acc.violation('close-not-seen-by-peer',
                              f'after port.close() ({prior} before) the peer '
                              f'{"reads " + repr(data) if r else "sees nothing: no EOF within 0.5 s"}',
                              {'kind': 'close', 'prior': prior})
            if not port.closed:
                acc.violation('close-flag', 'port.closed False after close()',
                              {'kind': 'close', 'prior': prior})
        finally:
            keep = port        # noqa: keep the port referenced until here
            for s in (a, b):
                try:
                    s.close()
                except OSError:
                    pass
            del keep


def check_addresses(mido, acc, ports):
    fa, pa = mido.sockets.format_address, mido.sockets.parse_address
    for host in ('', 'localhost', '127.0.0.1', 'a-b.c', 'x' * 40):
        for p in ports:
            acc.evals += 1
            acc.nontrivial += 1
            case = {'kind': 'address', 'host': host, 'port': p}
            try:
                s = fa(host, p)
                back = pa(s)
                again = fa(*back)
            except Exception as e:
                acc.violation(f'address/raises/{type(e).__name__}',
                              f'format/parse of {(host, p)} raised {e!r}',
                              case)
                return
            if back != (host, p) or again != s or type(back[1]) is not int:
                acc.violation('address/not-inverse',
                              f'parse_address(format_address({host!r}, {p})) '
                              f'= {back!r} via {s!r}', case)
                return
    for bad in ('', 'host', ':', 'a:b:c', 'h:0', 'h:65536', 'h:-1', 'h:x',
                'h:1.5', 'h: ', 'h:'):
        acc.evals += 1
        try:
            r = pa(bad)
        except ValueError:
            pass
        except Exception as e:
            acc.violation(f'address/bad/{type(e).__name__}',
                          f'parse_address({bad!r}) raised {e!r}',
                          {'kind': 'address-bad', 'text': bad})
        else:
            acc.violation('address/bad-accepted',
                          f'parse_address({bad!r}) = {r!r}',
                          {'kind': 'address-bad', 'text': bad})


def burst_message(mido, content, j):
    M = mido.Message
    if content == 'notes':
        return M('note_on', channel=j % 16, note=j % 128,
                 velocity=1 + (j // 128) % 100)
    if content == 'same-note':
        return M('note_on', channel=0, note=0, velocity=64)
    if content == 'tune':
        return M('tune_request')
    return (M('tune_request'), M('clock'), M('sysex', data=(j % 128,)),
            M('note_on', note=j % 128), M('note_on', note=j % 128),
            M('songpos', pos=j), M('sysex', data=()))[j % 7]


def check_burst(mido, tshim, acc, n, how, content='notes'):
    """n complete messages written at once, then the peer disconnects:
    every one must still be handed out (internal batch limits sit at such
    sizes)."""
    a, b = socket.socketpair()
    acc.evals += 1
    acc.nontrivial += 1
    case = {'kind': 'burst', 'n': n, 'how': how, 'content': content}
    sleeps = [0]

    def on_sleep(sec):
        sleeps[0] += 1
        if sleeps[0] > 40:
            raise Horizon()
    tshim.on_sleep = on_sleep
    port = None
    try:
        port = mido.sockets.SocketPort('peer', 1, conn=a)
        msgs = [burst_message(mido, content, j) for j in range(n)]
        data = b''.join(bytes(m.bytes()) for m in msgs)
        b.sendall(data)
        b.close()
        got = []
        if how == 'iterate':
            got = take(port)
        elif how == 'poll':
            while True:
                m = port.poll()
                if m is None:
                    break
                got.append(m)
        else:
            got = take(port.iter_pending()) + take(port.iter_pending())
        if sigs(got) != sigs(msgs):
            acc.violation(f'burst/{how}/{content}',
                          f'{n} messages ({content}) then disconnect, drained '
                          f'with {how}: received {len(got)}', case)
    except Horizon:
        acc.violation(f'burst/{how}/never-ended', f'{n} messages', case)
    except Exception as e:
        acc.violation(f'burst/{how}/raised/{type(e).__name__}', f'{e!r}', case)
    finally:
        tshim.on_sleep = None
        for s in (a, b):
            try:
                s.close()
            except OSError:
                pass


def check_send_after_disconnect(mido, tshim, acc, nmsgs, nsends):
    """The peer sends nmsgs messages and disconnects; the local side then
    tries to send (what send does is not judged); afterwards iteration must
    still hand out what arrived, end silently, and the port report closed."""
    a, b = socket.socketpair()
    acc.evals += 1
    acc.nontrivial += 1
    case = {'kind': 'send-after-disconnect', 'nmsgs': nmsgs, 'nsends': nsends}
    sleeps = [0]

    def on_sleep(sec):
        sleeps[0] += 1
        if sleeps[0] > 40:
            raise Horizon()
    tshim.on_sleep = on_sleep
    try:
        port = mido.sockets.SocketPort('peer', 1, conn=a)
        data = b''.join(bytes(mido.Message('note_on', note=j).bytes())
                        for j in range(nmsgs))
        if data:
            b.sendall(data)
        b.close()
        for k in range(nsends):
            try:
                port.send(mido.Message('note_on', note=100 + k))
            except Exception:
                pass            # not judged
        try:
            got = take(port)
        except Horizon:
            acc.violation('send-after-disconnect/iteration-did-not-end',
                          f'{nmsgs} messages, {nsends} sends', case)
            return
        except Exception as e:
            acc.violation(f'send-after-disconnect/iteration-raised/'
                          f'{type(e).__name__}',
                          f'peer sent {nmsgs} messages and disconnected, '
                          f'{nsends} local send(s) attempted, then iterating '
                          f'raised {e!r}', case)
            return
        want = sigs(mido.parse_all(list(data)))
        if sigs(got) != want[:len(got)]:
            acc.violation('send-after-disconnect/messages',
                          f'received {got!r}, which is not a prefix of what '
                          f'arrived', case)
        elif len(got) < len(want):
            # a failed send closes the port; whether unread input survives
            # that is not defined by the statement - recorded only
            acc.count('unread_input_dropped_by_failed_send')
        if not port.closed:
            acc.violation('send-after-disconnect/not-closed',
                          'port.closed is False after iteration ended', case)
    finally:
        tshim.on_sleep = None
        for s in (a, b):
            try:
                s.close()
            except OSError:
                pass


def check_server_burst(mido, tshim, acc, counts):
    """Clients send a burst and disconnect before the server looks."""
    acc.evals += 1
    acc.nontrivial += 1
    case = {'kind': 'server-burst', 'counts': list(counts)}
    try:
        server = mido.sockets.PortServer('127.0.0.1', 0)
    except OSError:
        acc.count('server_not_run_no_loopback')
        return
    sleeps = [0]

    def on_sleep(sec):
        sleeps[0] += 1
        _time.sleep(0.001)
        if sleeps[0] > 4000:
            raise Horizon()
    tshim.on_sleep = on_sleep
    try:
        port = server._socket.getsockname()[1]
        want = []
        for c, n in enumerate(counts):
            cl = mido.sockets.connect('127.0.0.1', port)
            for k in range(n):
                cl.send(mido.Message('note_on', channel=c, note=k % 128,
                                     velocity=1 + (k // 128) % 100))
                want.append((c, k % 128, 1 + (k // 128) % 100))
            # make sure the server has accepted this client before the next
            # connects (backlog is 1), then disconnect
            deadline = _time.time() + 5
            got_first = []
            cl.close()
            _time.sleep(0.05)
            m = server.poll()
            if m is not None:
                got_first.append(m)
            want_pending = got_first
            if c == 0:
                got = []
            got += [(x.channel, x.note, x.velocity) for x in got_first]
        deadline = _time.time() + 15
        idle = 0
        while len(got) < len(want) and _time.time() < deadline and idle < 200:
            m = server.poll()
            if m is None:
                idle += 1
                _time.sleep(0.002)
            else:
                idle = 0
                got.append((m.channel, m.note, m.velocity))
        ok = sorted(got) == sorted(want)
        for c in range(len(counts)):
            if [g for g in got if g[0] == c] != [w for w in want if w[0] == c]:
                ok = False
        if not ok:
            acc.violation('server/burst-then-disconnect',
                          f'clients sent {list(counts)} messages and '
                          f'disconnected: the server handed out {len(got)} of '
                          f'{len(want)}', case)
    except Horizon:
        acc.violation('server/burst-never-returned', f'{list(counts)}', case)
    except Exception as e:
        acc.violation(f'server/burst-raised/{type(e).__name__}', f'{e!r}', case)
    finally:
        tshim.on_sleep = None
        try:
            server.close()
        except Exception:
            pass


def check_server(mido, tshim, acc, nclients, nmsgs, mode):
    """PortServer over loopback TCP: every message of every client exactly
    once, without blocking forever."""
    acc.evals += 1
    acc.nontrivial += 1
    case = {'kind': 'server', 'clients': nclients, 'msgs': nmsgs, 'mode': mode}
    sleeps = [0]

    def on_sleep(sec):
        sleeps[0] += 1
        _time.sleep(0.001)
        if sleeps[0] > 4000:
            raise Horizon()

    try:
        server = mido.sockets.PortServer('127.0.0.1', 0)
    except OSError as e:
        acc.count('server_not_run_no_loopback')
        return
    clients = []
    tshim.on_sleep = on_sleep
    try:
        port = server._socket.getsockname()[1]
        want = []
        for c in range(nclients):
            cl = mido.sockets.connect('127.0.0.1', port)
            clients.append(cl)
            for k in range(nmsgs):
                m = mido.Message('note_on', channel=c, note=10 + k)
                cl.send(m)
                want.append((c, 10 + k))
        got = []
        deadline = _time.time() + 15.0
        try:
            while len(got) < len(want) and _time.time() < deadline:
                if mode == 'poll':
                    m = server.poll()
                elif mode == 'iter_pending':
                    ms = take(server.iter_pending())
                    m = None
                    got += [(x.channel, x.note) for x in ms]
                else:
                    if len(want) == 0:
                        break
                    m = server.receive()
                if m is not None:
                    got.append((m.channel, m.note))
                elif mode != 'receive':
                    _time.sleep(0.002)
            if mode in ('poll', 'iter_pending'):
                # one more non-blocking call must return promptly
                extra = server.poll()
                if extra is not None:
                    got.append((extra.channel, extra.note))
        except Horizon:
            acc.violation(f'server/{mode}-never-returned',
                          f'PortServer.{mode}() kept polling with '
                          f'{len(want) - len(got)} messages deliverable '
                          f'({nclients} clients x {nmsgs})', case)
            return
        except Exception as e:
            acc.violation(f'server/{mode}-raised/{type(e).__name__}',
                          f'{e!r}', case)
            return
        ok = sorted(got) == sorted(want)
        for c in range(nclients):
            if [g for g in got if g[0] == c] != [w for w in want if w[0] == c]:
                ok = False
        if not ok:
            acc.violation(f'server/{mode}-messages',
                          f'{nclients} clients x {nmsgs}: got {got}, expected '
                          f'each of {want} exactly once (per-client order)',
                          case)
        elif nclients and mode == 'poll':
            # closing the server port is a disconnect for every client it
            # had accepted (the accepted ports are still referenced by it)
            server.close()
            import select as _select
            for c, cl in enumerate(clients):
                r, _, _ = _select.select([cl._socket], [], [], 5.0)
                eof = False
                if r:
                    try:
                        eof = cl._socket.recv(1, socket.MSG_PEEK) == b''
                    except OSError:
                        eof = True
                if not eof:
                    acc.violation('server/close-not-seen-by-client',
                                  f'PortServer.close() with {nclients} '
                                  f'accepted clients: client {c} saw no end '
                                  f'of stream within 5 s', case)
                    break
    finally:
        tshim.on_sleep = None
        for cl in clients:
            try:
                cl.close()
            except Exception:
                pass
        try:
            server.close()
        except Exception:
            pass


def worker(shard):
    mido = common.import_mido()
    tshim, _ = install_seams(mido)
    acc = Acc()
    kind = shard[0]
    alpha = alphabet(mido)
    if kind == 'cuts':
        idxs, full = shard[1], shard[2]
        stream = []
        ends = []
        for i in idxs:
            stream += alpha[i].bytes()
            ends.append(len(stream))
        rot = sum(idxs)
        for cut in range(len(stream) + 1):
            inside = cut not in ends and cut != 0
            segs = compositions(cut) if (full and cut <= 8) else \
                compositions(cut, 2)
            for cuts in segs:
                nseg = len(cuts) + 1
                patterns = [tuple(0 for _ in range(nseg))]
                # deviation bound 2 on the consumption calls
                for pos in range(nseg):
                    for c in (1, 2):
                        p = [0] * nseg
                        p[pos] = c
                        patterns.append(tuple(p))
                if nseg >= 2:
                    p = [((j + rot) % 3) for j in range(nseg)]
                    patterns.append(tuple(p))
                for consume in patterns:
                    how = 'close' if (rot + cut + len(cuts)) % 3 else 'shutdown'
                    run_one(mido, tshim, stream, cut, cuts, consume, how, acc,
                            'socketpair')
                    if inside:
                        acc.nontrivial += 1
                        acc.count('cuts_inside_a_message')
        acc.sample({'messages': list(idxs), 'stream': hexs(stream)}, cap=1)
    elif kind == 'misc':
        check_close_seen_by_peer(mido, acc)
        check_addresses(mido, acc, shard[1])
    elif kind == 'server':
        for nclients in (0, 1, 2):
            for nmsgs in (0, 1, 2):
                for mode in ('poll', 'iter_pending', 'receive'):
                    if mode == 'receive' and nclients * nmsgs == 0:
                        continue
                    check_server(mido, tshim, acc, nclients, nmsgs, mode)
        for counts in ((65,), (200,), (5, 300, 7), (64,), (129, 1)):
            check_server_burst(mido, tshim, acc, counts)
        acc.sample({'server': 'loopback TCP, 0-2 clients x 0-2 messages; '
                    'bursts of 64..300 then disconnect'}, cap=1)
    elif kind == 'burst':
        for n in (1, 63, 64, 65, 100, 128, 129, 255, 256, 257, 341, 342, 1000,
                  1366):
            for how in ('iterate', 'poll', 'iter_pending'):
                check_burst(mido, tshim, acc, n, how)
        for n in (2, 3, 7, 64, 300, 1400):
            for content in ('same-note', 'tune', 'mixed'):
                for how in ('iterate', 'poll', 'iter_pending'):
                    check_burst(mido, tshim, acc, n, how, content)
        for nm in (0, 1, 3):
            for ns in (1, 2, 3):
                check_send_after_disconnect(mido, tshim, acc, nm, ns)
        acc.sample({'burst_sizes': [63, 64, 65, 1000]}, cap=1)
    return acc


def run():
    mido = common.import_mido()
    thorough = common.tier() == 'thorough'
    rep = Report(PROP, 'fault_enumeration',
                 'crash-point enumeration on real sockets: every cut offset '
                 'x segmentations x consumption calls, then disconnect')
    n = len(alphabet(mido))
    shards = []
    for k in (0, 1, 2):
        for idxs in itertools.product(range(n), repeat=k):
            shards.append(('cuts', idxs, True))
    for idxs in itertools.product(range(n), repeat=3):
        if thorough or (idxs[0] + 2 * idxs[1] + 3 * idxs[2]) % 4 == 0:
            shards.append(('cuts', idxs, False))
    ports = list(range(1, 65536)) if thorough else \
        [1, 2, 9, 10, 80, 99, 100, 1023, 1024, 8080, 9999, 10000, 32767, 32768,
         65534, 65535] + list(range(1, 65536, 257))
    shards.append(('misc', ports))
    shards.append(('server',))
    shards.append(('burst',))
    run_shards(worker, shards, rep)
    rep.coverage['exhaustive'] = True
    rep.coverage['rule'] = (
        f'SocketPort over socket.socketpair(): every sequence of <= 2 '
        f'messages over {{note_on, program_change, sysex(), sysex(1,2), '
        f'clock, songpos, tune_request}} (and '
        f'{"every" if thorough else "a quarter of the"} sequences of 3) x '
        f'every cut offset 0..len x every segmentation of the bytes before '
        f'the cut (all 2^(n-1) for <= 8 bytes, <= 2 segment boundaries '
        f'beyond) x consumption between segments (none / poll / '
        f'iter_pending: every single deviation plus a rotating pattern) x '
        f'peer close() or shutdown(SHUT_WR); then list(port): received == '
        f'parse of the bytes before the cut, iteration ends silently, '
        f'port.closed. port.close() must give the peer EOF (port still '
        f'referenced). format_address/parse_address inverse on '
        f'{len(ports)} port numbers x 5 hosts. PortServer over loopback TCP: '
        f'0-2 clients x 0-2 messages x poll/iter_pending/receive. '
        f'Non-trivial = the cut falls strictly inside a message')
    rep.assumptions += [
        'AF_UNIX socketpair delivery is synchronous; TCP loopback part '
        'waits (bounded) for delivery',
        'what send() does after the peer has gone is not judged',
        'reference for "complete messages before the cut" is the parse of '
        'that prefix (its soundness is C04/C06)',
    ]
    rep.require(rep.coverage.get('cuts_inside_a_message', 0) > 500,
                'no cut inside a message')
    return rep


def check_case(case):
    mido = common.import_mido()
    tshim, _ = install_seams(mido)
    acc = Acc()
    k = case['kind']
    if k == 'cut':
        run_one(mido, tshim, case['stream'], case['cut'],
                tuple(case['segments']), tuple(case['consume']),
                case['close'], acc, 'socketpair')
    elif k == 'close':
        check_close_seen_by_peer(mido, acc)
    elif k == 'send-after-disconnect':
        check_send_after_disconnect(mido, tshim, acc, case['nmsgs'],
                                    case['nsends'])
    elif k == 'burst':
        check_burst(mido, tshim, acc, case['n'], case['how'],
                    case.get('content', 'notes'))
    elif k == 'server-burst':
        check_server_burst(mido, tshim, acc, tuple(case['counts']))
    elif k.startswith('address'):
        check_addresses(mido, acc, [case.get('port', 8080)])
    else:
        check_server(mido, tshim, acc, case['clients'], case['msgs'],
                     case['mode'])
    return [(k, v[0][1]) for k, v in acc.viol.items()]


def replay(path):
    from ..replay import generic_replay
    return generic_replay(PROP, path, check_case)
