"""C06 - the parser resynchronises: a complete message is always recognised.

E1 on the C04 harness: every prefix P (all strings up to a length bound over
the byte-class alphabet + every proper prefix of every sample message) x
every sample message M; every concatenation of <= 3 messages; every way of
inserting <= 3 real-time bytes strictly inside a sysex encoding.
"""
import itertools

from .. import common
from ..engine_enum import Acc, run_shards
from ..evidence import Report
from ..ref import midi as ref
from .parser_common import (ALPHA15, RT_DEFINED, RT_UNDEFINED, hexs,
                            sample_messages, sigs)

PROP = 'C06'


FORM = [list]


def _parse(mido, data):
    return mido.parse_all(FORM[0](data))


def check_prefix(mido, P, msgs, encs, acc):
    try:
        base = sigs(_parse(mido, P))
    except Exception as e:
        acc.evals += 1
        acc.violation(f'prefix-raises/{type(e).__name__}',
                      f'parse_all({hexs(P)}) raised {e!r}',
                      {'kind': 'prefix', 'P': list(P), 'M': None})
        return
    for m, enc, sg in zip(msgs, encs, sigs(msgs)):
        acc.evals += 1
        data = tuple(P) + tuple(enc)
        try:
            got = sigs(_parse(mido, data))
        except Exception as e:
            acc.violation(f'prefix+msg-raises/{m.type}/{type(e).__name__}',
                          f'parse_all({hexs(data)}) raised {e!r}',
                          {'kind': 'prefix', 'P': list(P), 'M': list(enc)})
            continue
        if got == base + [sg] and P:
            # the prefix and the message arriving in two separate feed calls
            # (the message's own bytes in one call, or one at a time)
            try:
                p1 = mido.Parser()
                p1.feed(FORM[0](P))
                p1.feed(FORM[0](enc))
                p2 = mido.Parser()
                p2.feed(FORM[0](P))
                for b in enc:
                    p2.feed(FORM[0]([b]))
                split = (sigs(list(p1)), sigs(list(p2)))
            except Exception as e:
                split = (repr(e), None)
            if split != (got, got):
                acc.violation(f'resync-split-feed/{m.type}',
                              f'feed({hexs(P)}) then feed({hexs(enc)}) (whole / '
                              f'bytewise) = {split}; expected {got}',
                              {'kind': 'prefix', 'P': list(P), 'M': list(enc)})
        if got != base + [sg]:
            cls = 'after-partial' if P and any(b >= 0x80 for b in P) else 'after-data'
            acc.violation(f'resync/{m.type}/{cls}',
                          f'parse_all({hexs(P)} | {hexs(enc)}) = {got}; '
                          f'expected messages of P {base} followed by {m!r}',
                          {'kind': 'prefix', 'P': list(P), 'M': list(enc)})
    if P:
        acc.nontrivial += len(msgs)


def check_concat(mido, seq, acc):
    acc.evals += 1
    acc.nontrivial += 1
    data = []
    for m in seq:
        data.extend(m.bytes())
    try:
        got = sigs(_parse(mido, data))
    except Exception as e:
        acc.violation(f'concat-raises/{type(e).__name__}',
                      f'parse_all({hexs(data)}) raised {e!r}',
                      {'kind': 'concat', 'bytes': data})
        return
    try:
        got_it = sigs(mido.parse_all(iter(data)))
        got_gen = sigs(mido.parse_all(b for b in data))
    except Exception as e:
        acc.violation(f'concat-iterator-raises/{type(e).__name__}',
                      f'parse_all(iterator over {hexs(data)}) raised {e!r}',
                      {'kind': 'concat', 'bytes': data,
                       'expected': [m.bytes() for m in seq]})
        return
    if got_it != sigs(seq) or got_gen != sigs(seq):
        acc.violation('concat/iterator-input',
                      f'parse_all(iterator / generator over {hexs(data)}) = '
                      f'{got_it} / {got_gen}',
                      {'kind': 'concat', 'bytes': data,
                       'expected': [m.bytes() for m in seq]})
        return
    if got != sigs(seq):
        acc.violation('concat/' + '+'.join(m.type for m in seq)[:60],
                      f'parse_all({hexs(data)}) = {got}, expected {list(seq)!r}',
                      {'kind': 'concat', 'bytes': data,
                       'expected': [m.bytes() for m in seq]})


def rt_insertions(n_gaps, kmax, rtbytes):
    """All ways to insert <= kmax real-time bytes into n_gaps gaps: sequences
    of (gap, byte) with non-decreasing gap."""
    for k in range(0, kmax + 1):
        for gaps in itertools.combinations_with_replacement(range(n_gaps), k):
            for bs in itertools.product(rtbytes, repeat=k):
                yield tuple(zip(gaps, bs))


def check_rt_in_sysex(mido, payload, ins, acc):
    enc = [0xF0] + list(payload) + [0xF7]
    # gap g (0-based) lies after enc[g], i.e. strictly inside the encoding
    data = []
    expect_rt = []
    by_gap = {}
    for g, b in ins:
        by_gap.setdefault(g, []).append(b)
    for i, x in enumerate(enc):
        data.append(x)
        for b in by_gap.get(i, ()):
            data.append(b)
            if b in ref.REALTIME_STATUS:
                expect_rt.append(ref.REALTIME_STATUS[b])
    acc.evals += 1
    if ins:
        acc.nontrivial += 1
    case = {'kind': 'rt-in-sysex', 'bytes': data, 'payload': list(payload)}
    try:
        got = _parse(mido, data)
    except Exception as e:
        acc.violation(f'rt-in-sysex-raises/{type(e).__name__}',
                      f'parse_all({hexs(data)}) raised {e!r}', case)
        return
    types = [m.type for m in got]
    if types != expect_rt + ['sysex']:
        acc.violation('rt-in-sysex/order-or-count',
                      f'parse_all({hexs(data)}) = {got!r}; expected real-time '
                      f'{expect_rt} ahead of the sysex', case)
        return
    sx = got[-1]
    if tuple(sx.data) != tuple(payload):
        acc.violation('rt-in-sysex/payload-changed',
                      f'parse_all({hexs(data)}) sysex data {sx.data} != '
                      f'{tuple(payload)}', case)


def worker(shard):
    mido = common.import_mido()
    acc = Acc()
    msgs = sample_messages(mido)
    encs = [ref.encode(m.type, vars(m)) for m in msgs]
    kind = shard[0]
    if kind == 'prefix':
        head, n = shard[1], shard[2]
        if head is None:
            check_prefix(mido, (), msgs, encs, acc)
            for a in ALPHA15:
                check_prefix(mido, (a,), msgs, encs, acc)
            # message cut short: every proper prefix of every sample message,
            # alone and after a complete other message
            for e1 in encs:
                for cut in range(1, len(e1)):
                    check_prefix(mido, tuple(e1[:cut]), msgs, encs, acc)
                    check_prefix(mido, (0x85, 1, 2) + tuple(e1[:cut]), msgs,
                                 encs, acc)
        else:
            for k in range(0, n - 1):
                for rest in itertools.product(ALPHA15, repeat=k):
                    check_prefix(mido, head + rest, msgs, encs, acc)
        acc.sample({'P': hexs(head or (0x90, 1)), 'M': hexs(encs[9])}, cap=1)
    elif kind == 'allmsgs':
        # EVERY valid non-sysex message M: alone, after a message cut short
        # and inside an open sysex
        type_, ch = shard[1], shard[2]
        n = 0
        for attrs in ref.all_messages_of(type_, channel=ch):
            enc = ref.encode(type_, attrs)
            want = [('Message', tuple(sorted(dict(attrs, type=type_,
                                                  time=0).items())))]
            n += 1
            acc.evals += 1
            acc.nontrivial += 1
            for P in ((), (0x91, 0x01), (0xF0, 0x05)):
                try:
                    got = sigs(_parse(mido, P + tuple(enc)))
                except Exception as e:
                    got = repr(e)
                if got != want:
                    acc.violation(f'resync-all/{type_}',
                                  f'parse_all({hexs(P)} | {hexs(enc)}) = {got}; '
                                  f'expected exactly {type_} {attrs}',
                                  {'kind': 'prefix', 'P': list(P),
                                   'M': list(enc)})
                    break
        acc.sample({'every_message_of': type_, 'channel': ch, 'count': n},
                   cap=1)
    elif kind == 'concat':
        first = msgs[shard[1]]
        check_concat(mido, (first,), acc)
        for m2 in msgs:
            check_concat(mido, (first, m2), acc)
            for m3 in msgs:
                check_concat(mido, (first, m2, m3), acc)
        acc.sample({'concat': [first.type, msgs[3].type, msgs[12].type]},
                   cap=1)
    elif kind == 'longprefix':
        # long prefixes: an open sysex of n bytes with real-time bytes inside
        # (and nothing / another status after it), then every sample message;
        # through list, bytes and bytearray input
        for form in (list, bytes, bytearray):
            FORM[0] = form
            try:
                for n in (10, 63, 64, 65, 70, 200, 1100):
                    for tail in ((), (0xF8,), (0xF8, 0xF0, 1), (0xFA, 0x90, 5),
                                 (0xF8, 0xF4, 2, 0xF8)):
                        P = (0xF0,) + (1,) * n + tail
                        check_prefix(mido, P, msgs, encs, acc)
            finally:
                FORM[0] = list
        acc.sample({'long_prefix': 'F0 + n data bytes + real-time/status tail',
                    'forms': ['list', 'bytes', 'bytearray']}, cap=1)
    elif kind == 'long':
        n = shard[1]
        payload = [(i * 7 + 3) & 0x7F for i in range(n)]
        enc = [0xF0] + payload + [0xF7]
        m = mido.Message('sysex', data=payload)
        for P in ((), (0x90, 1), (0xF0, 1, 2), (5, 6)):
            check_prefix(mido, P, [m], [enc], acc)
        check_concat(mido, (msgs[2], m, msgs[9]), acc)
        # a real-time byte in the middle and right before the end
        for pos in (1, n // 2 + 1, n + 1):
            data = enc[:pos] + [0xF8] + enc[pos:]
            acc.evals += 1
            acc.nontrivial += 1
            try:
                got = mido.parse_all(data)
            except Exception as e:
                acc.violation(f'rt-in-sysex/long-payload-raises/{type(e).__name__}',
                              f'sysex with {n} data bytes and a clock at '
                              f'{pos}: parse_all raised {e!r}',
                              {'kind': 'long', 'n': n})
                continue
            if [x.type for x in got] != ['clock', 'sysex'] or \
                    list(got[-1].data) != payload:
                acc.violation('rt-in-sysex/long-payload',
                              f'sysex with {n} data bytes and a clock at '
                              f'{pos}: got {[x.type for x in got]}',
                              {'kind': 'long', 'n': n})
        acc.sample({'long_sysex_payload': n}, cap=1)
    elif kind == 'rt':
        n, kmax, extra = shard[1], shard[2], shard[3]
        alpha = (0, 0x7F, extra)
        rtb = RT_DEFINED + RT_UNDEFINED
        for payload in itertools.product(alpha, repeat=n):
            if n > 2 and payload[1:-1] != (alpha[0],) * (n - 2) and \
                    payload[1:-1] != (alpha[2],) * (n - 2):
                continue     # middle of longer payloads: two classes
            for ins in rt_insertions(n + 1, kmax, rtb):
                check_rt_in_sysex(mido, payload, ins, acc)
        acc.sample({'sysex_payload_len': n, 'inserted_realtime_max': kmax},
                   cap=1)
    return acc


def run():
    mido = common.import_mido()
    thorough = common.tier() == 'thorough'
    rep = Report(PROP, 'exploration',
                 'exhaustive enumeration of prefixes x messages, message '
                 'concatenations and real-time insertions on the real parser')
    NP = 5 if thorough else 4
    shards = [('prefix', None, NP)]
    shards += [('prefix', (a, b), NP) for a in ALPHA15 for b in ALPHA15]
    shards += [('concat', i) for i in range(len(sample_messages(mido)))]
    extra = 1 + (common.seed() * 29) % 126
    for n in range(0, 5 if not thorough else 7):
        shards.append(('rt', n, 3 if n <= 3 or thorough else 2, extra))
    kmax = 20 if thorough else 17
    longs = sorted({(1 << k) + d for k in range(7, kmax + 1) for d in (-2, -1, 0, 1)}
                   | {1000, 9999, 10000, 10001, 65000, 100000})
    shards += [('long', n) for n in longs]
    shards.append(('longprefix',))
    for t in ref.TYPES:
        if t == 'sysex':
            continue
        if t in ref.CHANNEL:
            shards += [('allmsgs', t, ch) for ch in range(16)]
        else:
            shards.append(('allmsgs', t, None))
    rep.coverage['long_sysex_payload_lengths'] = longs
    run_shards(worker, shards, rep)
    rep.coverage['exhaustive'] = True
    rep.coverage['rule'] = (
        f'prefix clause: every string P of length <= {NP} over the 15-symbol '
        f'byte-class alphabet, plus every proper prefix of every sample '
        f'message (alone and after a complete message), x 29 sample messages '
        f'M (one per type / length class / channel nibble / extreme value): '
        f'parse_all(P+enc(M)) == parse_all(P)+[M]. Concatenation: every '
        f'sequence of <= 3 sample messages. Real-time in sysex: payload '
        f'lengths 0..{4 if not thorough else 6}, every multiset of <= 3 '
        f'insertion positions strictly inside the encoding x every choice '
        f'among 6 defined + 2 undefined real-time bytes. '
        f'Non-trivial = non-empty prefix / >= 1 inserted byte / concatenation')
    rep.assumptions += [
        'messages M limited to 29 representatives; prefixes to the class '
        'alphabet and the stated length',
    ]
    return rep


def check_case(case):
    mido = common.import_mido()
    acc = Acc()
    msgs = sample_messages(mido)
    if case['kind'] == 'prefix':
        encs = [ref.encode(m.type, vars(m)) for m in msgs]
        if case.get('M') is not None:
            pairs = [(m, e) for m, e in zip(msgs, encs) if e == case['M']]
            msgs = [p[0] for p in pairs]
            encs = [p[1] for p in pairs]
        check_prefix(mido, tuple(case['P']), msgs, encs, acc)
    elif case['kind'] == 'concat':
        seq = [mido.Message.from_bytes(b) for b in case['expected']]
        check_concat(mido, seq, acc)
    else:
        if case['kind'] == 'long':
            return [(k, v[0][1]) for k, v in
                    worker(('long', case['n'])).viol.items()]
        data = case['bytes']
        payload = case['payload']
        exp = [ref.REALTIME_STATUS[b] for b in data if b in ref.REALTIME_STATUS]
        got = mido.parse_all(data)
        if [m.type for m in got] != exp + ['sysex'] or \
                tuple(got[-1].data) != tuple(payload):
            acc.violation('rt-in-sysex', f'parse_all({hexs(data)}) = {got!r}')
    return [(k, v[0][1]) for k, v in acc.viol.items()]


def replay(path):
    from ..replay import generic_replay
    return generic_replay(PROP, path, check_case)
