"""C20 - backend selection and port-opening arguments resolve
deterministically (E1: the complete configuration grid against a pure
reference function written from docs/backends/*.rst)."""
import itertools
import os
import shutil
import sys

from .. import common
from ..engine_enum import Acc, run_shards
from ..evidence import Report

PROP = 'C20'
ENVVARS = ('MIDO_BACKEND', 'MIDO_DEFAULT_INPUT', 'MIDO_DEFAULT_OUTPUT',
           'MIDO_DEFAULT_IOPORT')

RECORDER_SRC = '''
CALLS = []
EXC = [AttributeError]
DEVICES = [None]
'''

MODULE_SRC = '''
import mc_fake_recorder as _r
_r.CALLS.append(('import', __name__))


class _Port:
    kind = None

    def __init__(self, name=None, **kwargs):
        self.name = name
        self.kwargs = kwargs
        self.closed = False
        self._messages = []
        _r.CALLS.append((self.kind, name, dict(kwargs)))

    def close(self):
        self.closed = True


class Input(_Port):
    kind = 'Input'


class Output(_Port):
    kind = 'Output'

%(ioport)s
%(devices)s
'''
IOPORT_SRC = '''
class IOPort(_Port):
    kind = 'IOPort'
'''
DEVICES_SRC = '''
def get_devices(**kwargs):
    _r.CALLS.append(('get_devices', None, dict(kwargs)))
    if _r.DEVICES[0] is not None:
        return [dict(d) for d in _r.DEVICES[0]]
    return [
        {'name': 'X', 'is_input': True, 'is_output': False},
        {'name': 'Y', 'is_input': True, 'is_output': False},
        {'name': 'OnlyIn', 'is_input': True, 'is_output': False},
        {'name': 'Y', 'is_input': False, 'is_output': True},
        {'name': 'OnlyOut', 'is_input': False, 'is_output': True},
        {'name': 'X', 'is_input': False, 'is_output': True},
        {'name': 'Both', 'is_input': True, 'is_output': True},
    ]
'''
DEV_IN = ['X', 'Y', 'OnlyIn', 'Both']
DEV_OUT = ['Y', 'OnlyOut', 'X', 'Both']
DEV_IO = ['X', 'Y', 'Both']


def modname(native, devices):
    return f'mcfake_{"io" if native else "noio"}_{"dev" if devices else "nodev"}'


def write_modules(d):
    with open(os.path.join(d, 'mc_fake_recorder.py'), 'w') as f:
        f.write(RECORDER_SRC)
    for native in (True, False):
        for devices in (True, False):
            with open(os.path.join(d, modname(native, devices) + '.py'),
                      'w') as f:
                f.write(MODULE_SRC % {
                    'ioport': IOPORT_SRC if native else '',
                    'devices': DEVICES_SRC if devices else ''})
    # a backend whose port constructors fail (after recording the attempt)
    with open(os.path.join(d, 'mcfake_raising.py'), 'w') as f:
        f.write(MODULE_SRC % {'ioport': IOPORT_SRC, 'devices': ''} + '''

def _boom(self, name=None, **kwargs):
    _r.CALLS.append((self.kind, name, dict(kwargs)))
    raise _r.EXC[0]("constructor failed (injected)")


Input.__init__ = Output.__init__ = IOPort.__init__ = _boom
''')
    with open(os.path.join(d, 'mcfake_other.py'), 'w') as f:
        f.write(MODULE_SRC % {'ioport': '', 'devices': ''})


OPS = ('open_input', 'open_output', 'open_ioport', 'get_input_names',
       'get_output_names', 'get_ioport_names')
SPECS = (('arg', None), ('arg', 'kw'), ('arg/suffix', None), ('env', None),
         ('env', 'kw'), ('env/suffix', None), ('arg+env-other', None),
         ('arg/suffix+env-other/suffix', None),
         # an API name that itself contains slashes: the name is cut at the
         # FIRST slash
         ('arg/suffix2', None), ('env/suffix2', None))


def reference(cfg):
    """Pure reference: what must be observed for one configuration."""
    spec, apikw = cfg['spec']
    mod = modname(cfg['native'], cfg['devices'])
    if 'suffix2' in spec.split('+')[0]:
        api = 'AP/I//S'
    elif 'suffix' in spec.split('+')[0]:
        api = 'APIS'
    elif apikw:
        api = 'APIK'
    else:
        api = None
    call_api = 'APIC' if cfg['call_api'] else api
    env = cfg['env']
    use_env = cfg['use_environ']

    def envget(k):
        return env.get(k) if use_env else None
    op = cfg['op']
    explicit = 'Given' if cfg['name_given'] else None
    calls = []
    api_kw = {'api': call_api} if call_api else {}
    result = None
    if op == 'open_input':
        name = explicit or envget('MIDO_DEFAULT_INPUT')
        calls.append(('Input', name, dict(virtual=False, callback=None,
                                          **api_kw)))
        result = ('port', 'Input')
    elif op == 'open_output':
        name = explicit or envget('MIDO_DEFAULT_OUTPUT')
        calls.append(('Output', name, dict(virtual=False, autoreset=False,
                                           **api_kw)))
        result = ('port', 'Output')
    elif op == 'open_ioport':
        name = explicit or envget('MIDO_DEFAULT_IOPORT') or None
        if cfg['native']:
            calls.append(('IOPort', name, dict(virtual=False, callback=None,
                                               autoreset=False, **api_kw)))
            result = ('port', 'IOPort')
        else:
            if name:
                iname = oname = name
            else:
                iname = envget('MIDO_DEFAULT_INPUT')
                oname = envget('MIDO_DEFAULT_OUTPUT')
            calls.append(('Input', iname, api_kw))
            calls.append(('Output', oname, api_kw))
            result = ('wrapper', iname, oname)
    else:
        if cfg['devices']:
            calls.append(('get_devices', None, api_kw))
            result = ('names', {'get_input_names': DEV_IN,
                                'get_output_names': DEV_OUT,
                                'get_ioport_names': DEV_IO}[op])
        else:
            result = ('names', [])
    return {'module': mod, 'api': api, 'calls': calls, 'result': result}


def run_case(mido, cfg, acc):
    import mc_fake_recorder as rec
    from mido.backends.backend import Backend
    acc.evals += 1
    acc.nontrivial += 1
    exp = reference(cfg)
    mod = exp['module']
    spec, apikw = cfg['spec']
    case = {k: (list(v) if isinstance(v, tuple) else v)
            for k, v in cfg.items()}
    saved = {k: os.environ.get(k) for k in ENVVARS}
    for k in ENVVARS:
        os.environ.pop(k, None)
    for m in list(sys.modules):
        if m.startswith('mcfake_'):
            del sys.modules[m]
    del rec.CALLS[:]
    try:
        for k, v in cfg['env'].items():
            os.environ[k] = v
        first = spec.split('+')[0]
        suffix = ('/AP/I//S' if 'suffix2' in first else
                  '/APIS' if 'suffix' in first else '')
        name_arg = None
        if first.startswith('arg'):
            name_arg = mod + suffix
            if '+env-other' in spec:
                os.environ['MIDO_BACKEND'] = 'mcfake_other' + (
                    '/APIO' if 'other/suffix' in spec else '')
        else:
            os.environ['MIDO_BACKEND'] = mod + suffix
        kwargs = {'use_environ': cfg['use_environ'], 'load': cfg['load']}
        if apikw:
            kwargs['api'] = 'APIK'
        if cfg.get('via_set_backend'):
            if cfg['via_set_backend'] == 'object':
                b0 = Backend(name_arg, **kwargs)
                mido.set_backend(b0)
                if mido.backend is not b0:
                    acc.violation('set_backend-replaced-the-object/' + cfg['op'],
                                  'after set_backend(backend_object), '
                                  'mido.backend is another object', case)
                    return
            else:
                mido.set_backend(name_arg, load=cfg['load'])
            b = mido.backend
        else:
            b = Backend(name_arg, **kwargs)

        def bad(key, what):
            acc.violation(f'{key}/{cfg["op"]}',
                          f'{what} [config {case}]', case)

        if b.name != mod or b.api != exp['api']:
            bad('name-or-api-split', f'backend name/api = {b.name!r}/{b.api!r},'
                f' expected {mod!r}/{exp["api"]!r}')
            return
        loaded_early = mod in sys.modules
        if loaded_early != cfg['load'] or b.loaded != cfg['load']:
            bad('lazy-import', f'module in sys.modules={loaded_early}, '
                f'backend.loaded={b.loaded} right after construction with '
                f'load={cfg["load"]}')
            return
        if 'mcfake_other' in sys.modules:
            bad('environment-beat-explicit-backend', 'MIDO_BACKEND module was '
                'imported although a backend name was given')
            return
        del rec.CALLS[:]
        fn = getattr(mido, cfg['op']) if cfg.get('via_set_backend') \
            else getattr(b, cfg['op'])
        if cfg.get('via_set_backend') and getattr(
                fn, '__self__', None) is not b:
            bad('set_backend-not-rebound', f'mido.{cfg["op"]} is bound to '
                f'{getattr(fn, "__self__", None)!r}, not the chosen backend')
            return
        call_kwargs = {}
        if cfg['call_api']:
            call_kwargs['api'] = 'APIC'
        if cfg['op'].startswith('open'):
            if cfg['name_given']:
                res = fn('Given', **call_kwargs)
            else:
                res = fn(**call_kwargs)
        else:
            res = fn(**call_kwargs)
        calls = [c for c in rec.CALLS if c[0] != 'import']
        imports = [c for c in rec.CALLS if c[0] == 'import']
        if not cfg['load'] and imports != [('import', mod)]:
            bad('lazy-import', f'imports during the first call: {imports}')
            return
        if mod not in sys.modules:
            bad('lazy-import', 'module still not imported after the call')
            return
        # compare constructor / device-query calls
        got_calls = []
        for kind, name, kw in calls:
            got_calls.append((kind, name, kw))
        want_calls = exp['calls']
        ok = len(got_calls) == len(want_calls)
        if ok:
            for (gk, gn, gkw), (wk, wn, wkw) in zip(got_calls, want_calls):
                if gk != wk or gn != wn:
                    ok = False
                    break
                # every expected keyword must be present with that value; the
                # wrapper path may pass further keywords to both constructors
                for k, v in wkw.items():
                    if k not in gkw or gkw[k] != v:
                        ok = False
                if 'api' not in wkw and gkw.get('api') is not None:
                    ok = False
        if not ok:
            which = 'api' if [c[:2] for c in got_calls] == [
                c[:2] for c in want_calls] else 'name-or-class'
            bad(f'constructor-arguments/{which}',
                f'calls {got_calls}, expected {want_calls}')
            return
        r = exp['result']
        if r[0] == 'port':
            if type(res).__name__ != r[1]:
                bad('result', f'returned {res!r}, expected a {r[1]}')
        elif r[0] == 'wrapper':
            if type(res) is not mido.ports.IOPort or \
                    type(res.input).__name__ != 'Input' or \
                    type(res.output).__name__ != 'Output' or \
                    res.input.name != r[1] or res.output.name != r[2]:
                bad('result', f'returned {res!r}; expected the IOPort wrapper '
                    f'around Input({r[1]!r}) / Output({r[2]!r})')
        else:
            if list(res) != r[1]:
                bad('name-list', f'returned {res!r}, expected {r[1]}')
    except Exception as e:
        acc.violation(f'raised/{type(e).__name__}/{cfg["op"]}',
                      f'{e!r} [config {case}]', case)
    finally:
        for k in ENVVARS:
            os.environ.pop(k, None)
        for k, v in saved.items():
            if v is not None:
                os.environ[k] = v


def default_laziness(mido, acc):
    """With the load argument left out the module is imported on first use,
    not by the constructor / set_backend; load=True imports at once."""
    import mc_fake_recorder as rec
    from mido.backends.backend import Backend
    mod = modname(True, True)

    def forget():
        for m in list(sys.modules):
            if m.startswith('mcfake_'):
                del sys.modules[m]
        del rec.CALLS[:]

    def imported():
        return [c for c in rec.CALLS if c[0] == 'import']

    steps = [
        ('Backend(name)', lambda: Backend(mod), False),
        ('Backend(name, use_environ=False)',
         lambda: Backend(mod, use_environ=False), False),
        ('Backend(name, load=True)', lambda: Backend(mod, load=True), True),
        ('Backend(name, api="X")', lambda: Backend(mod, api='X'), False),
    ]
    for label, make_, eager in steps:
        acc.evals += 1
        acc.nontrivial += 1
        case = {'kind': 'laziness', 'how': label}
        forget()
        try:
            be = make_()
            first = len(imported())
            if bool(first) != eager:
                acc.violation(f'default-laziness/{label}',
                              f'{label}: module imported by the constructor: '
                              f'{bool(first)}, expected {eager}', case)
                continue
            be.get_input_names()
            if len(imported()) != 1:
                acc.violation(f'default-laziness/{label}/first-use',
                              f'{label}: imports after the first use: '
                              f'{imported()}', case)
        except Exception as e:
            acc.violation(f'default-laziness/{label}/{type(e).__name__}',
                          f'{e!r}', case)
    # set_backend(name) without load
    acc.evals += 1
    forget()
    old_backend = mido.backend
    try:
        mido.set_backend(mod)
        if imported():
            acc.violation('default-laziness/set_backend(name)',
                          'set_backend(name) imported the module before any '
                          'use', {'kind': 'laziness', 'how': 'set_backend'})
        mido.get_input_names()
        if len(imported()) != 1:
            acc.violation('default-laziness/set_backend(name)/first-use',
                          f'imports after first use: {imported()}',
                          {'kind': 'laziness', 'how': 'set_backend'})
    except Exception as e:
        acc.violation(f'default-laziness/set_backend/{type(e).__name__}',
                      f'{e!r}', {'kind': 'laziness', 'how': 'set_backend'})
    finally:
        mido.set_backend(old_backend)
        forget()


def raising_cases(mido, acc):
    """A port constructor that raises: the exception reaches the caller and
    nothing else is constructed in its place (in particular no Input/Output
    pair instead of a failing native IOPort)."""
    import mc_fake_recorder as rec
    from mido.backends.backend import Backend
    for exc in (AttributeError, OSError, ValueError, KeyError, TypeError):
        for op, kind in (('open_input', 'Input'), ('open_output', 'Output'),
                         ('open_ioport', 'IOPort')):
            acc.evals += 1
            acc.nontrivial += 1
            rec.EXC[0] = exc
            for m in list(sys.modules):
                if m.startswith('mcfake_'):
                    del sys.modules[m]
            del rec.CALLS[:]
            case = {'kind': 'raising', 'op': op, 'exc': exc.__name__}
            b = Backend('mcfake_raising')
            try:
                res = getattr(b, op)('Given')
            except exc:
                calls = [c for c in rec.CALLS if c[0] != 'import']
                if [c[0] for c in calls] != [kind]:
                    acc.violation(f'raising/{op}/other-constructors-tried',
                                  f'{kind} raised {exc.__name__}; constructor '
                                  f'calls were {calls}', case)
            except Exception as e:
                acc.violation(f'raising/{op}/wrong-exception',
                              f'{kind} raised {exc.__name__} but {op} raised '
                              f'{e!r}', case)
            else:
                acc.violation(f'raising/{op}/swallowed',
                              f'{kind} raised {exc.__name__} but {op} returned '
                              f'{res!r} (calls {rec.CALLS})', case)


def grid(spec_idx):
    spec = SPECS[spec_idx]
    envsets = []
    for bits in itertools.product((False, True), repeat=3):
        e = {}
        for k, on in zip(ENVVARS[1:], bits):
            if on:
                e[k] = 'Env' + k.split('_')[-1].title()
        envsets.append(e)
    for use_env, env, name_given, call_api, native, devices, load, op in \
            itertools.product((True, False), envsets, (True, False),
                              (True, False), (True, False), (True, False),
                              (True, False), OPS):
        yield {'spec': spec, 'use_environ': use_env, 'env': env,
               'name_given': name_given, 'call_api': call_api,
               'native': native, 'devices': devices, 'load': load, 'op': op}


def device_lists(mido, acc):
    """Name listing over enumerated device lists: every list of <= 4 entries
    over 3 names x {in, out, both}, and long lists (9..40 devices) in several
    orders.  Each name is at most once an input and at most once an output."""
    import itertools
    import mc_fake_recorder as rec
    from mido.backends.backend import Backend
    DIRS = {'in': (True, False), 'out': (False, True), 'both': (True, True)}

    def lists():
        syms = [(n, d) for n in 'ABC' for d in DIRS]
        for k in range(5):
            yield from itertools.product(syms, repeat=k)
        for n in (5, 8, 9, 10, 17, 40):
            names = [f'dev{i}' for i in range(n)]
            ins = [(x, 'in') for x in names]
            outs = [(x, 'out') for x in names]
            yield ins + outs
            yield outs + ins
            yield ins + outs[::-1]
            yield outs[::-1] + ins
            yield [e for pair in zip(outs[::-1], ins) for e in pair]
            yield [(x, 'both') for x in names[::-1]]
            yield outs[n // 2:] + ins + outs[:n // 2]
            yield ([(x, 'out') for x in names[::2]] + ins[::-1]
                   + [(x, 'both') for x in ['extra1', 'extra2']])

    be = Backend(modname(True, True), load=True)
    try:
        for lst in lists():
            ins = [n for n, d in lst if DIRS[d][0]]
            outs = [n for n, d in lst if DIRS[d][1]]
            if len(set(ins)) != len(ins) or len(set(outs)) != len(outs):
                continue
            rec.DEVICES[0] = [{'name': n, 'is_input': DIRS[d][0],
                               'is_output': DIRS[d][1]} for n, d in lst]
            want = {'get_input_names': ins, 'get_output_names': outs,
                    'get_ioport_names': [n for n in ins if n in set(outs)]}
            acc.evals += 1
            acc.nontrivial += 1
            for op, exp in want.items():
                try:
                    got = getattr(be, op)()
                except Exception as e:
                    got = repr(e)
                if got != exp:
                    acc.violation(f'device-list/{op}',
                                  f'{op}() with devices {lst if len(lst) < 12 else str(lst)[:300]} '
                                  f'= {got!r:.300}, expected {exp!r:.300}',
                                  {'kind': 'devices'})
                    break
    finally:
        rec.DEVICES[0] = None


def worker(shard):
    mido = common.import_mido()
    acc = Acc()
    d = common.scratch_dir()
    sys.path.insert(0, d)
    original_backend = mido.backend
    try:
        write_modules(d)
        if shard[0] == 'grid':
            for cfg in grid(shard[1]):
                run_case(mido, cfg, acc)
            acc.sample(dict(cfg, spec=list(cfg['spec'])), cap=1)
        else:
            # set_backend rebinding: Backend object and module name
            for via in ('object', 'name'):
                for cfg in grid(0):
                    if cfg['call_api']:
                        continue
                    if via == 'name' and not cfg['use_environ']:
                        continue    # set_backend(name) always uses the environment
                    if via == 'name' and cfg['spec'][1]:
                        continue
                    run_case(mido, dict(cfg, via_set_backend=via), acc)
            raising_cases(mido, acc)
            default_laziness(mido, acc)
            device_lists(mido, acc)
            acc.sample({'set_backend': ['object', 'name']}, cap=1)
    finally:
        mido.set_backend(original_backend)
        sys.path.remove(d)
        for m in list(sys.modules):
            if m.startswith('mcfake_') or m == 'mc_fake_recorder':
                del sys.modules[m]
        shutil.rmtree(d, ignore_errors=True)
    return acc


def run():
    common.import_mido()
    rep = Report(PROP, 'exploration',
                 'complete enumeration of the configuration grid with '
                 'recording fake backend modules against a pure reference '
                 'function')
    shards = [('grid', i) for i in range(len(SPECS))] + [('set_backend',)]
    run_shards(worker, shards, rep)
    rep.coverage['exhaustive'] = True
    rep.coverage['rule'] = (
        f'the full grid: backend given as {[s[0] for s in SPECS]} x api '
        f'keyword x use_environ x each of MIDO_DEFAULT_INPUT/OUTPUT/IOPORT '
        f'set/unset x port name given/absent x explicit api= in the call x '
        f'fake module with/without native IOPort x with/without get_devices x '
        f'load x {list(OPS)}; plus set_backend(Backend)/set_backend(name) '
        f'rebinding of the top-level functions. Fake backend modules are '
        f'files on sys.path that record imports, constructor calls and '
        f'device queries; os.environ is set per case and restored. Oracle: '
        f'pure reference function (lazy import, explicit > environment > '
        f'None, api injection, name lists from the device list, wrapper '
        f'fallback). Every configuration is distinct and non-trivial')
    rep.assumptions += [
        'empty-string environment values and api given both in the name and '
        'as keyword are outside the grid (undefined by the docs)',
        'the wrapper fallback may pass additional keywords to Input/Output; '
        'only names and api are judged there',
    ]
    return rep


def check_case(case):
    mido = common.import_mido()
    acc = Acc()
    d = common.scratch_dir()
    sys.path.insert(0, d)
    orig = mido.backend
    try:
        write_modules(d)
        if case.get('kind') == 'devices':
            device_lists(mido, acc)
        elif case.get('kind') == 'raising':
            raising_cases(mido, acc)
        elif case.get('kind') == 'laziness':
            default_laziness(mido, acc)
        else:
            cfg = dict(case)
            cfg['spec'] = tuple(cfg['spec'])
            run_case(mido, cfg, acc)
    finally:
        mido.set_backend(orig)
        sys.path.remove(d)
        shutil.rmtree(d, ignore_errors=True)
    return [(k, v[0][1]) for k, v in acc.viol.items()]


def replay(path):
    from ..replay import generic_replay
    return generic_replay(PROP, path, check_case)
