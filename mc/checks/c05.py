"""C05 - parsing does not depend on chunking or consumption order.

(1) E3-style exhaustive chunking: every string over a 9-symbol class alphabet
    up to a length bound x every composition into consecutive chunks x a call
    form per chunk; result must equal the one-shot parse.
(2) E2: BFS over histories of feed / get_message / pending / len / iterator
    operations on a live Parser (and ParserQueue) against a FIFO model.
"""
import itertools

from .. import common
from ..engine_bfs import Search, canon
from ..engine_enum import Acc, run_shards
from ..evidence import Report
from .parser_common import (ALPHA9, INVALID_ITEMS, hexs, long_streams,
                            msg_sig, reject_probe, sigs)

PROP = 'C05'
FORMS = ('list', 'bytes', 'generator', 'feed_byte', 'tuple', 'bytearray')


def feed_chunk(p, chunk, form):
    if form == 'list':
        p.feed(list(chunk))
    elif form == 'bytes':
        p.feed(bytes(chunk))
    elif form == 'generator':
        p.feed(b for b in chunk)
    elif form == 'tuple':
        p.feed(tuple(chunk))
    elif form == 'bytearray':
        p.feed(bytearray(chunk))
    else:
        for b in chunk:
            p.feed_byte(b)


def compositions(n):
    """All ways to cut a string of length n into consecutive chunks (as cut
    masks)."""
    if n == 0:
        yield ()
        return
    for mask in range(1 << (n - 1)):
        cuts = [i + 1 for i in range(n - 1) if mask >> i & 1]
        yield tuple(cuts)


def message_spans(mido, data):
    """(start,end) byte spans of the messages found by one-shot parsing, by
    feeding byte by byte (used only for the non-vacuity counter)."""
    p = mido.Parser()
    spans = []
    start = None
    for i, b in enumerate(data):
        before = p.pending()
        if b >= 0x80 and b < 0xF8:
            start = i
        p.feed_byte(b)
        if p.pending() > before and start is not None and b < 0xF8:
            spans.append((start, i))
            start = None
    return spans


def check_chunkings(mido, data, acc, full_forms, rot):
    try:
        ref_sigs = sigs(mido.parse_all(list(data)))
    except Exception as e:
        acc.evals += 1
        acc.violation(f'oneshot-raises/{type(e).__name__}',
                      f'parse_all({hexs(data)}) raised {e!r}',
                      {'kind': 'chunk', 'bytes': list(data), 'cuts': [],
                       'forms': ['list']})
        return
    n = len(data)
    spans = message_spans(mido, data) if ref_sigs else []
    for cuts in compositions(n):
        bounds = (0,) + cuts + (n,)
        chunks = [data[bounds[i]:bounds[i + 1]]
                  for i in range(len(bounds) - 1)] if n else []
        inside = any(s < c <= e for c in cuts for (s, e) in spans)
        if full_forms:
            form_sets = itertools.product(FORMS, repeat=len(chunks))
        else:
            form_sets = [tuple(FORMS[(rot + i + len(cuts)) % len(FORMS)]
                               for i in range(len(chunks)))]
            rot += 1
        for forms in form_sets:
            acc.evals += 1
            if inside:
                acc.nontrivial += 1
                acc.count('chunkings_cutting_inside_a_message')
            case = {'kind': 'chunk', 'bytes': list(data), 'cuts': list(cuts),
                    'forms': list(forms)}
            try:
                p = mido.Parser()
                got = []
                for j, (ch, fm) in enumerate(zip(chunks, forms)):
                    feed_chunk(p, ch, fm)
                    if (j + rot) % 3 == 0:      # sometimes drain in between
                        got.extend(p)
                got.extend(p)
            except Exception as e:
                acc.violation(f'chunked-raises/{type(e).__name__}',
                              f'{hexs(data)} cut at {cuts} via {forms} raised '
                              f'{e!r}', case)
                continue
            if sigs(got) != ref_sigs:
                acc.violation('chunking-changes-result/' +
                              ('cut-inside-message' if inside else 'other'),
                              f'{hexs(data)} cut at {cuts} via {forms} gave '
                              f'{got!r}; one-shot parse gave {ref_sigs}', case)
    return rot


def worker(shard):
    mido = common.import_mido()
    acc = Acc()
    if shard[0] == 'long':
        # many messages in one call / across calls: FIFO, pending(), chunking
        for data, label in long_streams(mido):
            acc.evals += 1
            acc.nontrivial += 1
            case = {'kind': 'long', 'label': label}
            try:
                want = sigs(mido.parse_all(list(data)))
                for form in ('list', 'bytes'):
                    for chunk in (len(data) or 1, 1, 2, 3, 7, 64, 1000):
                        p = mido.Parser()
                        for i in range(0, len(data), chunk):
                            feed_chunk(p, data[i:i + chunk], form)
                        n = p.pending()
                        if n != len(want) or len(p) != len(want):
                            acc.violation('long/pending',
                                          f'{label}, chunks of {chunk} ({form})'
                                          f': pending() = {n}, len = {len(p)}, '
                                          f'but {len(want)} messages can be '
                                          f'retrieved', case)
                            break
                        got = []
                        while True:
                            m = p.get_message()
                            if m is None:
                                break
                            got.append(m)
                            if p.pending() != len(want) - len(got):
                                acc.violation('long/pending-during-retrieval',
                                              f'{label}: after {len(got)} '
                                              f'retrievals pending() = '
                                              f'{p.pending()}', case)
                                break
                        if sigs(got) != want:
                            acc.violation('long/chunking-changes-result',
                                          f'{label}, chunks of {chunk} ({form})'
                                          f': {len(got)} messages, one-shot '
                                          f'{len(want)}', case)
                            break
            except Exception as e:
                acc.violation(f'long/raised/{type(e).__name__}',
                              f'{label}: {e!r}', case)
        acc.sample({'long_streams': 'up to 2030 messages / 65536-byte sysex'},
                   cap=1)
        return acc
    if shard[0] == 'reject':
        first = shard[1]
        for k in range(0, 4):
            for rest in itertools.product(ALPHA9, repeat=k):
                data = (first,) + rest
                n = len(data)
                for i in range(n + 1):
                    for j in range(i, n + 1):
                        for bad in INVALID_ITEMS:
                            acc.evals += 1
                            acc.nontrivial += 1
                            reject_probe(mido, data[:i], data[i:j], data[j:],
                                         bad, acc.violation, 'reject')
        acc.sample({'reject_probe': hexs(data), 'invalid_items':
                    [repr(x) for x in INVALID_ITEMS]}, cap=1)
        return acc
    head, n, full_n, seed = shard
    rot = seed
    if head is None:
        for k in (0, 1):
            for d in itertools.product(ALPHA9, repeat=k):
                rot = check_chunkings(mido, d, acc, True, rot)
        return acc
    for k in range(0, n - 1):
        for rest in itertools.product(ALPHA9, repeat=k):
            data = head + rest
            rot = check_chunkings(mido, data, acc, len(data) <= full_n, rot)
    acc.sample({'bytes': hexs(data), 'cuts': 'all 2^(n-1) compositions'},
               cap=1)
    return acc


# ------------------------------------------------------------ consumption BFS
FEED_BYTES = (0x90, 0x01, 0xF8, 0xF0, 0xF7, 0xF6, 0xC2, 0xF4)
BULK = (0x91, 1, 2, 0x81, 3, 4)
QMAX = 3


class PSys:
    """Live Parser + observer (all bytes fed, number consumed)."""

    def __init__(self, mido, use_queue):
        self.use_queue = use_queue
        if use_queue:
            from mido.backends._parser_queue import ParserQueue
            self.p = ParserQueue()
        else:
            self.p = mido.Parser()
        self.fed = []
        self.consumed = 0
        self.it = None


def make_consumption_search(mido, use_queue, depth):
    def expected(s):
        return sigs(mido.parse_all(list(s.fed)))

    def build(hist):
        s = PSys(mido, use_queue)
        for op in hist:
            apply(s, op)
        return s

    def ops(s, hist):
        o = [('feed_byte', b) for b in FEED_BYTES] + [('feed', BULK)]
        if use_queue:
            o += [('poll',), ('iterpoll-all',), ('qsize',)]
            if len(expected(s)) - s.consumed > 0:
                o.append(('get',))
        else:
            o += [('get_message',), ('pending',), ('len',), ('next-live',),
                  ('list',), ('iter-new',)]
        return o

    def apply(s, op):
        k = op[0]
        p = s.p
        try:
            if k == 'feed_byte':
                s.fed.append(op[1])
                if use_queue:
                    p.put_bytes([op[1]])
                else:
                    p.feed_byte(op[1])
                return ('none', None)
            if k == 'feed':
                s.fed.extend(op[1])
                if use_queue:
                    p.put_bytes(list(op[1]))
                else:
                    p.feed(list(op[1]))
                return ('none', None)
            if k == 'get_message':
                m = p.get_message()
                return ('msg', m)
            if k == 'poll':
                return ('msg', p.poll())
            if k == 'get':
                # get() blocks on an empty queue: never call it unless the
                # implementation itself holds a message; the model expecting
                # one while the queue is empty is reported as a violation.
                if p._queue.qsize() == 0:
                    return ('msg', None)
                return ('msg', p.get())
            if k == 'pending':
                return ('count', p.pending())
            if k == 'len':
                return ('count', len(p))
            if k == 'qsize':
                return ('count', p._queue.qsize())
            if k == 'iter-new':
                s.it = iter(p)
                return ('none', None)
            if k == 'next-live':
                if s.it is None:
                    s.it = iter(p)
                try:
                    return ('msg', next(s.it))
                except StopIteration:
                    s.it = None
                    return ('msg', None)
            if k == 'list':
                return ('msgs', list(p))
            if k == 'iterpoll-all':
                return ('msgs', list(p.iterpoll()))
        except Exception as e:
            return ('raised', e)
        raise AssertionError(op)

    def check(s, hist, op, obs, violation):
        case = {'kind': 'history', 'queue': use_queue,
                'ops': [list(o) for o in hist + (op,)]}
        tag = 'queue' if use_queue else 'parser'
        exp = expected(s)
        avail = exp[s.consumed:]
        kind, val = obs
        if kind == 'raised':
            violation(f'{tag}/raised/{op[0]}/{type(val).__name__}',
                      f'history {hist + (op,)} raised {val!r}', case)
            return
        if kind == 'msg':
            if val is None:
                if avail:
                    violation(f'{tag}/none-while-pending/{op[0]}',
                              f'{op[0]} returned None with {len(avail)} '
                              f'pending after {hist}', case)
            else:
                if not avail:
                    violation(f'{tag}/message-from-nowhere/{op[0]}',
                              f'{op[0]} returned {val!r} with nothing pending '
                              f'after {hist}', case)
                elif msg_sig(val) != avail[0]:
                    violation(f'{tag}/not-fifo/{op[0]}',
                              f'{op[0]} returned {val!r}, expected {avail[0]} '
                              f'after {hist}', case)
                s.consumed += 1
        elif kind == 'msgs':
            if sigs(val) != avail:
                violation(f'{tag}/drain-mismatch/{op[0]}',
                          f'{op[0]} returned {val!r}, expected {avail} after '
                          f'{hist}', case)
            s.consumed += len(val)
        elif kind == 'count':
            if val != len(avail):
                violation(f'{tag}/pending-wrong/{op[0]}',
                          f'{op[0]} = {val}, but {len(avail)} messages can '
                          f'still be retrieved after {hist}', case)

    def key(s):
        # impl state + what the model says can still be retrieved
        return (canon(s.p), canon(s.it), tuple(expected(s)[s.consumed:]))

    def expand(s, hist, op):
        return len(expected(s)) - s.consumed <= QMAX

    def build_checked(hist):
        # consumed counter is maintained by check(); replay it here
        s = PSys(mido, use_queue)
        for i, op in enumerate(hist):
            obs = apply(s, op)
            if obs[0] == 'msg' and obs[1] is not None:
                s.consumed += 1
            elif obs[0] == 'msgs':
                s.consumed += len(obs[1])
        return s

    return Search(build_checked, ops, apply, check, key, max_depth=depth,
                  expand=expand, max_states=120000)


def run():
    mido = common.import_mido()
    thorough = common.tier() == 'thorough'
    seed = common.seed()
    rep = Report(PROP, 'model_checking',
                 'BFS over feed/retrieve histories of the live Parser against '
                 'a FIFO model + exhaustive chunkings of every string')
    depth = 13 if thorough else 10
    for use_queue in (False, True):
        srch = make_consumption_search(mido, use_queue, depth)
        srch.run(rep.violation, procs=common.nproc())
        srch.fill(rep)
        rep.require(srch.states > 200, f'consumption BFS too small: {srch.states}')
    rep.coverage['bfs_depth'] = depth

    N = 6 if thorough else 5
    FULL = 4 if thorough else 3
    shards = [(None, N, FULL, seed)]
    shards += [((a, b), N, FULL, seed) for a in ALPHA9 for b in ALPHA9]
    shards += [('reject', a) for a in ALPHA9]
    shards.append(('long',))
    run_shards(worker, shards, rep)
    rep.coverage['traces_validated_against_impl'] += rep.coverage['evaluations']
    rep.coverage['exhaustive'] = True
    rep.coverage['rule'] = (
        f'(1) every string of length <= {N} over {[hex(b) for b in ALPHA9]} x '
        f'every composition into chunks (2^(n-1)); per-chunk call form from '
        f'{FORMS}: the full product for length <= {FULL}, a rotating '
        f'assignment beyond; draining between chunks on a rotating pattern; '
        f'compared with the one-shot parse. Non-trivial = a cut falls strictly '
        f'inside a message; every string of length <= 4 split A|B|C with an '
        f'invalid element appended to B: feed(A), feed(B+[bad]) must be '
        f'rejected, feed(C): result = parse(A+B+C) or parse(A+C), never an '
        f'exception or lost state. (2) BFS to depth {depth} over histories of '
        f'feed_byte({[hex(b) for b in FEED_BYTES]}), feed(2 messages), '
        f'get_message, pending, len, next on a live iterator, list, new '
        f'iterator (Parser) and put_bytes/poll/get/iterpoll/qsize '
        f'(ParserQueue), pending queue bounded at {QMAX}; oracle: FIFO model '
        f'= one-shot parse of all bytes fed so far minus what was retrieved')
    rep.assumptions += [
        'the FIFO model uses mido.parse_all of the whole fed stream as the '
        'message list (soundness of that list is C04/C06)',
        'ParserQueue.get is only called when a message is available '
        '(it blocks otherwise)',
    ]
    rep.require(rep.coverage.get('chunkings_cutting_inside_a_message', 0) > 1000,
                'no chunking cut inside a message')
    return rep


def check_case(case):
    mido = common.import_mido()
    out = []
    if case['kind'] == 'chunk':
        data = tuple(case['bytes'])
        cuts = tuple(case['cuts'])
        forms = case['forms']
        ref_sigs = sigs(mido.parse_all(list(data)))
        bounds = (0,) + cuts + (len(data),)
        chunks = [data[bounds[i]:bounds[i + 1]] for i in range(len(bounds) - 1)]
        for drain in (0, 1, 2):
            p = mido.Parser()
            got = []
            try:
                for j, (ch, fm) in enumerate(zip(chunks, forms)):
                    feed_chunk(p, ch, fm)
                    if (j + drain) % 3 == 0:
                        got.extend(p)
                got.extend(p)
            except Exception as e:
                out.append(('chunked-raises', repr(e)))
                break
            if sigs(got) != ref_sigs:
                out.append(('chunking-changes-result',
                            f'{got!r} vs one-shot {ref_sigs}'))
                break
    elif case['kind'] == 'reject':
        reject_probe(mido, case['A'], case['B'], case['C'],
                     eval(case['bad']), lambda k, w, c=None: out.append((k, w)),
                     'reject')
    else:
        srch = make_consumption_search(mido, case['queue'], 99)
        hist = tuple(tuple(tuple(x) if isinstance(x, list) else x for x in o)
                     for o in case['ops'])
        s = srch.build(hist[:-1])
        obs = srch.apply(s, hist[-1])
        srch.check(s, hist[:-1], hist[-1], obs,
                   lambda k, w, c=None: out.append((k, w)))
    return out


def replay(path):
    from ..replay import generic_replay
    return generic_replay(PROP, path, check_case)
