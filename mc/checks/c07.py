"""C07 - MIDI file save then load preserves every track (E1 + exhaustive
byte-level mutation of valid files for the fixed-point clause)."""
import io
import itertools

from .. import common
from ..engine_enum import Acc, run_shards
from ..evidence import Report
from ..ref import midi as ref
from .smf_common import (DELTAS, PAYLOAD_LENGTHS, SYMBOLS, load_bytes, make,
                         msig, normalised_sigs, save_bytes, short, track_sigs)

PROP = 'C07'
TPBS = (480, 1, 32767)


def build_file(mido, type_, tpb, specs):
    """specs: list of tracks; each a list of (symbol, delta)."""
    tracks = [mido.MidiTrack(make(mido, s, d) for s, d in sp) for sp in specs]
    return mido.MidiFile(type=type_, ticks_per_beat=tpb, tracks=tracks)


def check_roundtrip(mido, type_, tpb, specs, acc):
    acc.evals += 1
    case = {'kind': 'roundtrip', 'type': type_, 'tpb': tpb,
            'tracks': [[list(x) for x in sp] for sp in specs]}
    mf = build_file(mido, type_, tpb, specs)
    before = [track_sigs(t) for t in mf.tracks]
    want = [normalised_sigs(mido, t) for t in mf.tracks]
    kinds = {s for sp in specs for s, _ in sp}
    big = any(d > 0 for sp in specs for _, d in sp)
    if len(kinds) > 1 or big:
        acc.nontrivial += 1
    try:
        data = save_bytes(mf)
    except Exception as e:
        acc.violation(f'save-raises/{type(e).__name__}',
                      f'saving {short(case)} raised {e!r}', case)
        return None
    if [track_sigs(t) for t in mf.tracks] != before:
        acc.violation('save-modified-input',
                      f'saving {short(case)} modified the tracks', case)
    try:
        back = load_bytes(mido, data)
    except Exception as e:
        acc.violation(f'load-raises/{type(e).__name__}',
                      f'loading the saved {short(case)} raised {e!r}', case)
        return data
    if (back.type, back.ticks_per_beat, len(back.tracks)) != (
            type_, tpb, len(specs)):
        acc.violation('header-differs',
                      f'{short(case)}: loaded type/tpb/tracks = '
                      f'{(back.type, back.ticks_per_beat, len(back.tracks))}',
                      case)
        return data
    # history: what load returned is the caller's - change it, load the same
    # bytes again; saving twice gives the same bytes
    try:
        for t in back.tracks:
            for m in t:
                m.time = 4242
        back2 = load_bytes(mido, data)
        if [track_sigs(t) for t in back2.tracks] != want:
            acc.violation('reload-after-mutation-differs',
                          f'{short(case)}: loading the same bytes a second '
                          f'time (after changing the first result) gave '
                          f'{short([track_sigs(t) for t in back2.tracks], 300)}',
                          case)
            return data
        if save_bytes(mf) != data:
            acc.violation('second-save-differs',
                          f'{short(case)}: saving the same file twice gave '
                          f'different bytes', case)
            return data
        back = back2
    except Exception as e:
        acc.violation(f'reload-raises/{type(e).__name__}',
                      f'{short(case)}: {e!r}', case)
        return data
    for i, (got, exp) in enumerate(zip(back.tracks, want)):
        g = track_sigs(got)
        if g != exp:
            # classify
            if len(g) != len(exp):
                key = 'track-length'
            else:
                j = next(k for k in range(len(g)) if g[k] != exp[k])
                a, b = dict(g[j][1]), dict(exp[j][1])
                if g[j][0] == exp[j][0] and {k: v for k, v in a.items()
                                             if k != 'time'} == {
                        k: v for k, v in b.items() if k != 'time'}:
                    key = f'delta-time/{exp[j][0]}:{b.get("type")}'
                else:
                    key = f'message/{exp[j][0]}:{b.get("type")}'
            acc.violation(f'roundtrip/{key}',
                          f'{short(case)}: track {i} loaded as {short(g, 400)}, '
                          f'expected {short(exp, 400)}', case)
            return data
    return data


def _kinds(kinds):
    return '+'.join(sorted(kinds))[:50]


def check_refuse(mido, type_, specs, acc, why, patch=None):
    """Contents that cannot be stored: save must raise ValueError; if it does
    not, the file must at least load back to equal content."""
    acc.evals += 1
    acc.nontrivial += 1
    mf = build_file(mido, type_, 480, specs)
    if patch:
        patch(mf)
    case = {'kind': 'refuse', 'why': why, 'type': type_,
            'tracks': [[list(x) for x in sp] for sp in specs]}
    want = None
    try:
        want = [normalised_sigs(mido, t) for t in mf.tracks]
    except Exception:
        pass
    try:
        data = save_bytes(mf)
    except ValueError:
        return
    except Exception as e:
        acc.violation(f'refuse/{why}/{type(e).__name__}',
                      f'{short(case)}: save raised {e!r}, ValueError expected',
                      case)
        return
    # not refused: is what was written at least faithful?
    try:
        back = load_bytes(mido, data)
        same = ([track_sigs(t) for t in back.tracks] == want
                and back.type == type_)
    except Exception as e:
        same = False
        back = e
    if same and not why.startswith('realtime'):
        # a time that is not a non-negative integer on an end_of_track can
        # fold into a storable delta; the file then loads to the normalised
        # content, which is what the statement protects
        acc.count('not_refused_but_stored_faithfully')
        return
    acc.violation(f'refuse/{why}/stored' + ('' if not same else '-faithfully'),
                  f'{short(case)}: save did not raise ValueError'
                  + ('' if same else f' and the file loads as {short(back)}'),
                  case)


def worker(shard):
    mido = common.import_mido()
    acc = Acc()
    kind = shard[0]
    if kind == 'one':
        type_, first, n, dev = shard[1], shard[2], shard[3], shard[4]
        i = 0
        for k in range(0, n):
            for rest in itertools.product(SYMBOLS, repeat=k):
                syms = (first,) + rest
                i += 1
                tpb = TPBS[i % 3]
                check_roundtrip(mido, type_, tpb, [[(s, 0) for s in syms]], acc)
                # deviation bound 1 (and 2 for short tracks) on the deltas
                for pos in range(len(syms)):
                    for d in DELTAS[1:]:
                        sp = [(s, 0) for s in syms]
                        sp[pos] = (syms[pos], d)
                        check_roundtrip(mido, type_, tpb, [sp], acc)
                if dev >= 2 and len(syms) == 2:
                    for d0 in DELTAS[1:]:
                        for d1 in DELTAS[1:]:
                            check_roundtrip(mido, type_, tpb,
                                            [[(syms[0], d0), (syms[1], d1)]],
                                            acc)
        acc.sample({'type': type_, 'track': list(syms)}, cap=1)
    elif kind == 'two':
        type_, t0, n = shard[1], shard[2], shard[3]
        for k in range(0, n + 1):
            for t1 in itertools.product(SYMBOLS, repeat=k):
                check_roundtrip(mido, type_, 480,
                                [[(s, 1) for s in t0], [(s, 0) for s in t1]],
                                acc)
    elif kind == 'three':
        a = shard[1]
        for b in (None,) + SYMBOLS:
            for c in (None,) + SYMBOLS:
                specs = [[(a, 0)] if a else [], [(b, 5)] if b else [],
                         [(c, 0)] if c else []]
                for type_ in (1, 2):
                    check_roundtrip(mido, type_, 96, specs, acc)
    elif kind == 'lengths':
        for n in PAYLOAD_LENGTHS + shard[1]:
            for sym in (f'sysexN{n}', f'textN{n}', f'unkN{n}'):
                for d in (0, 128):
                    check_roundtrip(mido, 1, 480,
                                    [[('on0', 0), (sym, d), ('on0', 1)]], acc)
        for cnt in (0,):
            for type_ in (1, 2):
                check_roundtrip(mido, type_, 480, [], acc)
        acc.sample({'payload_lengths': list(PAYLOAD_LENGTHS + shard[1])}, cap=1)
    elif kind == 'refuse':
        for rt in ref.REALTIME:
            for pos in range(3):
                sp = [('on0', 0), ('on1', 1), ('text1', 2)]
                sp.insert(pos, (rt, 0))
                check_refuse(mido, 1, [sp], acc, f'realtime:{rt}')
        for bad, name in ((-1, 'negative'), (1.5, 'float'), (2.0, 'float-int'),
                          (-0.5, 'negative-float')):
            for pos in range(3):
                for sym in ('on0', 'text1', 'sysex1', 'eot'):
                    def patch(mf, pos=pos, bad=bad):
                        mf.tracks[0][pos].time = bad
                    sp = [('on0', 0), ('on1', 1), ('text1', 2)]
                    sp[pos] = (sym, 0)
                    check_refuse(mido, 1, [sp], acc, f'time:{name}', patch)
        check_refuse(mido, 0, [], acc, 'type0-without-track')
        check_refuse(mido, 0, [[('on0', 0)], [('on1', 0)]], acc,
                     'type0-two-tracks')
        check_refuse(mido, 0, [[], [], []], acc, 'type0-three-tracks')
        acc.sample({'refuse': 'real-time types, negative/float times, type 0 '
                    'with != 1 track'}, cap=1)
    elif kind == 'mutate':
        _mutations(mido, acc, shard[1], shard[2], shard[3])
    elif kind == 'entry':
        entry_points(mido, acc)
    return acc


def entry_points(mido, acc):
    """The other ways in and out: save(filename) as str and pathlib.Path,
    MidiFile(filename) / MidiFile(file=...), a charset for the text, a file
    object that accepts a few bytes per write."""
    import os
    import pathlib
    import shutil
    d = common.scratch_dir()

    class Dribble(io.BytesIO):
        # a binary stream may take fewer bytes than offered only for raw
        # streams; a BufferedIOBase takes all - this one records the calls
        def __init__(self):
            super().__init__()
            self.calls = 0

        def write(self, b):
            self.calls += 1
            return super().write(b)

    try:
        spec_sets = [[[(s, 1), ('on0', 2)]] for s in SYMBOLS]
        spec_sets += [[[('text1', 0), ('on0', 3)], [('sysex1', 1)], []]]
        for i, specs in enumerate(spec_sets):
            for type_ in (1, 2):
                acc.evals += 1
                acc.nontrivial += 1
                case = {'kind': 'entry', 'type': type_,
                        'tracks': [[list(x) for x in sp] for sp in specs]}
                try:
                    mf = build_file(mido, type_, 480, specs)
                    want = [normalised_sigs(mido, t) for t in mf.tracks]
                    ref_bytes = save_bytes(mf)
                    p1 = os.path.join(d, f'a{i}.mid')
                    mf.save(p1)
                    p2 = pathlib.Path(d) / f'b{i}.mid'
                    mf.save(filename=p2)
                    drib = Dribble()
                    mf.save(file=drib)
                    outs = {'save(str)': open(p1, 'rb').read(),
                            'save(filename=Path)': p2.read_bytes(),
                            'save(file=recording stream)': drib.getvalue()}
                    for name, b in outs.items():
                        if b != ref_bytes:
                            acc.violation(f'entry/{name}/bytes-differ',
                                          f'{short(case)}: {name} wrote '
                                          f'{b.hex()[:120]}, save(file=BytesIO) '
                                          f'{ref_bytes.hex()[:120]}', case)
                    with open(p1, 'rb') as fh:
                        loads = {'MidiFile(str)': mido.MidiFile(p1),
                                 'MidiFile(filename=Path)':
                                     mido.MidiFile(filename=p2),
                                 'MidiFile(file=open file)':
                                     mido.MidiFile(file=fh)}
                    for name, back in loads.items():
                        got = [track_sigs(t) for t in back.tracks]
                        if got != want or back.type != type_ or \
                                back.ticks_per_beat != 480:
                            acc.violation(f'entry/{name}/differs',
                                          f'{short(case)}: {name} gave '
                                          f'{short(got, 300)}', case)
                except Exception as e:
                    acc.violation(f'entry/raises/{type(e).__name__}',
                                  f'{short(case)}: {e!r}', case)
        # text in the file's charset
        for cs, text in (('utf-8', 'caf\xe9 \u65e5\u672c'), ('cp1252', '\u20ac5'),
                         ('shift_jis', '\u65e5\u672c'), ('utf-16', 'ab\xe9'),
                         ('latin1', '\xe9\xff')):
            for via in ('file', 'filename'):
                acc.evals += 1
                acc.nontrivial += 1
                case = {'kind': 'entry', 'charset': cs, 'via': via}
                try:
                    tr = mido.MidiTrack([
                        mido.MetaMessage('track_name', name=text, time=1),
                        mido.Message('note_on', note=1, time=2),
                        mido.MetaMessage('lyrics', text=text * 3, time=0)])
                    mf = mido.MidiFile(type=1, charset=cs, tracks=[tr])
                    want = [normalised_sigs(mido, t) for t in mf.tracks]
                    if via == 'file':
                        back = load_bytes(mido, save_bytes(mf), charset=cs)
                    else:
                        p = os.path.join(d, f'c-{cs}.mid')
                        mf.save(p)
                        back = mido.MidiFile(p, charset=cs)
                    got = [track_sigs(t) for t in back.tracks]
                    if got != want:
                        acc.violation(f'entry/charset/{cs}',
                                      f'text {text!a} with charset {cs} via '
                                      f'{via}: loaded {short(got, 300)}', case)
                except Exception as e:
                    acc.violation(f'entry/charset/{cs}/{type(e).__name__}',
                                  f'text {text!a} with charset {cs} via {via}: '
                                  f'{e!r}', case)
        acc.sample({'entry_points': ['save(str)', 'save(filename=Path)',
                                     'save(file=stream)', 'MidiFile(str)',
                                     'MidiFile(filename=Path)',
                                     'MidiFile(file=open file)', 'charset=']},
                   cap=1)
    finally:
        shutil.rmtree(d, ignore_errors=True)


# ---------------------------------------------------------------- fixed point
def base_files(mido):
    specs = [
        (1, [[('on0', 0), ('on0b', 1), ('off0', 127), ('prog', 128)],
             [('text1', 0), ('tempo', 5), ('eot', 3)]]),
        (0, [[('sysex1', 0), ('on1', 2), ('on1', 0), ('unk1', 1),
              ('pitch', 16384)]]),
        (1, [[('tune', 0), ('qframe', 1), ('songpos', 1), ('songsel', 1),
              ('seqspec', 2)], []]),
        (2, [[('cc0', 0), ('cc0', 0), ('text0', 0), ('cc0', 1)],
             [('sysex0', 1), ('unk0', 0)]]),
    ]
    # encoded by the REFERENCE encoder (running status on every eligible
    # event), so the base files do not depend on mido's writer
    from ..ref import smf
    from .smf_common import track_events
    out = []
    for type_, sp in specs:
        mf = build_file(mido, type_, 480, sp)
        tracks = []
        for t in mf.tracks:
            ev = smf.normalise(track_events(t))
            tracks.append((ev, {'running': set(smf.running_eligible(ev))}))
        out.append(smf.encode_file(type_, 480, tracks))
    return out


def fixed_point(mido, data, acc, label, clip=None):
    """If data loads: save(load) must succeed (or refuse for a stated
    reason), reload equal, and be a byte-level fixed point from then on.
    Also with the reader's clip option (data bytes above 127 become 127)."""
    if clip is None:
        fixed_point(mido, data, acc, label, False)
        fixed_point(mido, data, acc, label, True)
        return
    kw = {'clip': True} if clip else {}
    if clip:
        label += '/clip=True'
    acc.evals += 1
    try:
        f1 = load_bytes(mido, data, **kw)
        sig1 = [track_sigs(t) for t in f1.tracks]
        norm1 = [normalised_sigs(mido, t) for t in f1.tracks]
    except Exception:
        return                      # does not load: nothing is required
    acc.nontrivial += 1
    acc.count('mutants_that_load')
    case = {'kind': 'fixed-point', 'bytes': bytes(data).hex(), 'label': label,
            'clip': clip}
    unstorable = (f1.type == 0 and len(f1.tracks) != 1) or any(
        m.type in ref.REALTIME for t in f1.tracks for m in t)
    try:
        b2 = save_bytes(f1)
    except ValueError as e:
        if not unstorable:
            acc.violation('fixed-point/save-refused-loadable',
                          f'{label}: file loads as {short(sig1)} but saving it '
                          f'raised {e!r}', case)
        return
    except Exception as e:
        acc.violation(f'fixed-point/save-raises/{type(e).__name__}',
                      f'{label}: file loads as {short(sig1)}; save raised '
                      f'{e!r}', case)
        return
    if unstorable:
        acc.violation('fixed-point/unstorable-content-saved',
                      f'{label}: loaded content {short(sig1)} cannot be stored '
                      f'but save did not raise', case)
        return
    try:
        f2 = load_bytes(mido, b2, **kw)
    except Exception as e:
        acc.violation(f'fixed-point/reload-raises/{type(e).__name__}',
                      f'{label}: save(load(b)) does not load: {e!r}; first load '
                      f'{short(sig1)}', case)
        return
    if ([track_sigs(t) for t in f2.tracks] != norm1 or f2.type != f1.type
            or f2.ticks_per_beat != f1.ticks_per_beat):
        acc.violation('fixed-point/reload-differs',
                      f'{label}: load(save(load(b))) = '
                      f'{short([track_sigs(t) for t in f2.tracks], 300)}, '
                      f'expected {short(norm1, 300)}', case)
        return
    try:
        b3 = save_bytes(f2)
    except Exception as e:
        acc.violation('fixed-point/second-save-raises', f'{label}: {e!r}', case)
        return
    if b3 != b2:
        acc.violation('fixed-point/not-idempotent',
                      f'{label}: save(load(b2)) != b2', case)


def _mutations(mido, acc, fi, lo, hi):
    base = base_files(mido)[fi]
    n = len(base)
    if lo == 0:
        fixed_point(mido, base, acc, f'base{fi}')
        for cut in range(n):
            fixed_point(mido, base[:cut], acc, f'base{fi}/truncate@{cut}')
        for pos in range(n):
            fixed_point(mido, base[:pos] + base[pos + 1:], acc,
                        f'base{fi}/delete@{pos}')
            fixed_point(mido, base[:pos] + base[pos:pos + 1] + base[pos:], acc,
                        f'base{fi}/duplicate@{pos}')
    for pos in range(lo, min(hi, n)):
        for v in range(256):
            if v == base[pos]:
                continue
            fixed_point(mido, base[:pos] + bytes([v]) + base[pos + 1:], acc,
                        f'base{fi}/set@{pos}={v:#04x}')
    acc.sample({'mutations_of_base_file': fi, 'positions': [lo, min(hi, n)],
                'base_hex': base.hex()}, cap=1)


def run():
    mido = common.import_mido()
    thorough = common.tier() == 'thorough'
    rep = Report(PROP, 'exploration',
                 'exhaustive enumeration of small files through save+load, '
                 'unstorable contents, and every single-byte mutation / '
                 'truncation / deletion / duplication of base files')
    n1 = 4 if thorough else 3
    shards = [('refuse',), ('entry',),
              ('lengths', (999000,) if thorough else ())]  # reader limit: 1e6 bytes per message
    for type_ in (0, 1):
        shards += [('one', type_, s, n1, 2) for s in SYMBOLS]
    n2 = 2
    for t0 in itertools.chain.from_iterable(
            itertools.product(SYMBOLS, repeat=k) for k in range(0, n2 + 1)):
        shards.append(('two', 1 if len(t0) % 2 else 2, t0, n2))
    shards += [('three', a) for a in (None,) + SYMBOLS]
    nb = len(base_files(mido))
    for fi in range(nb):
        ln = len(base_files(mido)[fi])
        step = 8
        for lo in range(0, ln, step):
            shards.append(('mutate', fi, lo, lo + step))
    run_shards(worker, shards, rep)
    rep.coverage['exhaustive'] = True
    rep.coverage['rule'] = (
        f'round trip: file types 0/1 x every single track of length <= {n1} '
        f'over {len(SYMBOLS)} event kinds (channel incl. running-status runs, '
        f'system common, sysex, known/unknown meta, mid-track end_of_track) '
        f'with all-zero deltas plus every single-position substitution from '
        f'{list(DELTAS)} (every pair for 2-event tracks); types 1/2 x every '
        f'pair of tracks of length <= {n2}; every triple of tracks of length '
        f'<= 1; payload lengths {list(PAYLOAD_LENGTHS)}; ticks_per_beat '
        f'{list(TPBS)}. Must-refuse: 6 real-time types and 4 bad time values '
        f'at every position, type 0 with 0/2/3 tracks. Fixed point: {nb} base '
        f'files x every single-byte substitution (pos x 255), truncation, '
        f'deletion and duplication; for each that loads: save, reload equals '
        f'the normalised first load, second save byte-identical. Non-trivial '
        f'= mixed event kinds or a non-zero delta / a mutant that loads')
    rep.assumptions += [
        'tracks longer than the bound and event kinds outside the alphabet '
        'are not covered',
        'a mutated file that fails to load is outside the fixed-point clause',
    ]
    rep.require(rep.coverage.get('mutants_that_load', 0) > 1000,
                'too few mutants load')
    return rep


def check_case(case):
    mido = common.import_mido()
    acc = Acc()
    if case['kind'] == 'roundtrip':
        specs = [[tuple(x) for x in sp] for sp in case['tracks']]
        check_roundtrip(mido, case['type'], case['tpb'], specs, acc)
    elif case['kind'] == 'entry':
        entry_points(mido, acc)
    elif case['kind'] == 'fixed-point':
        fixed_point(mido, bytes.fromhex(case['bytes']), acc,
                    case['label'].replace('/clip=True', ''),
                    case.get('clip', False))
    else:
        return [(k, v[0][1]) for k, v in worker(('refuse',)).viol.items()]
    return [(k, v[0][1]) for k, v in acc.viol.items()]


def replay(path):
    from ..replay import generic_replay
    return generic_replay(PROP, path, check_case)
