"""Reference Standard MIDI File codec, written from the SMF 1.0 specification
(independent of mido.midifiles).  Strict decoder with annotations + an encoder
parameterised by the legal encoding choices.

Canonical events (delta, ev):
  ('ch', status, (d1[, d2]))       channel voice message
  ('sysex', (data...))             F0 <len> data F7   (complete sysex)
  ('meta', type, (payload...))     FF type <len> payload
  ('common', status, (data...))    F1/F2/F3/F6 stored raw (a mido extension
                                   the reference accepts, as documented in
                                   DESIGN.md)
"""
import struct

from .meta import vlq
from .midi import message_length


class SMFError(Exception):
    pass


def read_vlq(b, pos):
    """Return (value, newpos, minimal)."""
    val = 0
    n = 0
    first = None
    while True:
        if pos >= len(b):
            raise SMFError('truncated variable-length quantity')
        c = b[pos]
        pos += 1
        if first is None:
            first = c
        val = (val << 7) | (c & 0x7F)
        n += 1
        if c < 0x80:
            break
    minimal = (n == 1) or first != 0x80
    return val, pos, minimal


def decode_track(body):
    """Strict decode of a track chunk body -> (events, notes).
    notes: list of dicts per event: vlq_minimal, running, len_minimal."""
    pos = 0
    events = []
    notes = []
    running = None
    while pos < len(body):
        delta, pos, dmin = read_vlq(body, pos)
        if pos >= len(body):
            raise SMFError('delta time without event')
        st = body[pos]
        note = {'delta_minimal': dmin, 'running': False, 'len_minimal': True}
        if st < 0x80:
            if running is None:
                raise SMFError('running status without a preceding channel '
                               'message (or across a meta/sysex event)')
            st = running
            note['running'] = True
        else:
            pos += 1
        if st == 0xFF:
            if pos >= len(body):
                raise SMFError('truncated meta event')
            mtype = body[pos]
            pos += 1
            ln, pos, lmin = read_vlq(body, pos)
            note['len_minimal'] = lmin
            if pos + ln > len(body):
                raise SMFError('meta payload exceeds the track chunk')
            events.append((delta, ('meta', mtype, tuple(body[pos:pos + ln]))))
            pos += ln
            running = None
        elif st == 0xF0:
            ln, pos, lmin = read_vlq(body, pos)
            note['len_minimal'] = lmin
            if pos + ln > len(body):
                raise SMFError('sysex payload exceeds the track chunk')
            payload = tuple(body[pos:pos + ln])
            pos += ln
            if not payload or payload[-1] != 0xF7:
                raise SMFError('sysex event not terminated by F7')
            events.append((delta, ('sysex', payload[:-1])))
            running = None
        elif st == 0xF7:
            ln, pos, lmin = read_vlq(body, pos)
            if pos + ln > len(body):
                raise SMFError('escape payload exceeds the track chunk')
            events.append((delta, ('escape', tuple(body[pos:pos + ln]))))
            pos += ln
            running = None
        elif st >= 0xF0:
            n = message_length(st)
            if not n:
                raise SMFError(f'undefined status byte {st:#x} in track')
            if st >= 0xF8:
                raise SMFError('real-time status byte in track')
            if pos + n - 1 > len(body):
                raise SMFError('truncated system common message')
            events.append((delta, ('common', st,
                                   tuple(body[pos:pos + n - 1]))))
            pos += n - 1
            running = None
        else:
            n = message_length(st) - 1
            if pos + n > len(body):
                raise SMFError('truncated channel message')
            data = tuple(body[pos:pos + n])
            if any(d > 0x7F for d in data):
                raise SMFError('data byte above 127 in channel message')
            pos += n
            events.append((delta, ('ch', st, data)))
            running = st
        notes.append(note)
    return events, notes


def decode_file(data):
    """Strict decode of a whole file."""
    data = bytes(data)
    if len(data) < 14 or data[:4] != b'MThd':
        raise SMFError('no MThd chunk')
    hlen = struct.unpack('>L', data[4:8])[0]
    if hlen < 6 or 8 + hlen > len(data):
        raise SMFError('bad header chunk length')
    fmt, ntrks, div = struct.unpack('>HHH', data[8:14])
    pos = 8 + hlen
    tracks = []
    while pos < len(data):
        if pos + 8 > len(data):
            raise SMFError('trailing bytes after the last chunk')
        name = data[pos:pos + 4]
        ln = struct.unpack('>L', data[pos + 4:pos + 8])[0]
        pos += 8
        if pos + ln > len(data):
            raise SMFError('chunk length exceeds the file')
        if name == b'MTrk':
            ev, notes = decode_track(data[pos:pos + ln])
            tracks.append({'events': ev, 'notes': notes, 'length': ln})
        pos += ln
    if len(tracks) != ntrks:
        raise SMFError(f'header announces {ntrks} tracks, found {len(tracks)}')
    return {'format': fmt, 'ntrks': ntrks, 'division': div,
            'header_len': hlen, 'tracks': tracks}


def padded_vlq(n, pad):
    return [0x80] * pad + vlq(n)


def event_bytes(ev, running_ok=False, len_pad=0):
    """Bytes of one event (without delta).  running_ok: omit the status byte
    (only legal for 'ch' events directly after a 'ch' of equal status)."""
    kind = ev[0]
    if kind == 'ch':
        return ([] if running_ok else [ev[1]]) + list(ev[2])
    if kind == 'sysex':
        return [0xF0] + padded_vlq(len(ev[1]) + 1, len_pad) + list(ev[1]) + [0xF7]
    if kind == 'meta':
        return [0xFF, ev[1]] + padded_vlq(len(ev[2]), len_pad) + list(ev[2])
    if kind == 'common':
        return [ev[1]] + list(ev[2])
    raise ValueError(kind)


def running_eligible(events):
    """Indices of events that may legally use running status."""
    out = []
    prev = None
    for i, (_, ev) in enumerate(events):
        if ev[0] == 'ch' and prev is not None and prev[0] == 'ch' \
                and prev[1] == ev[1]:
            out.append(i)
        prev = ev
    return out


def encode_track(events, running=(), delta_pad=None, len_pad=None):
    """events: [(delta, ev)] (must already end with the end-of-track meta).
    running: set of event indices encoded with running status.
    delta_pad/len_pad: dict index -> number of redundant 0x80 bytes."""
    body = []
    for i, (delta, ev) in enumerate(events):
        body += padded_vlq(delta, (delta_pad or {}).get(i, 0))
        body += event_bytes(ev, i in running, (len_pad or {}).get(i, 0))
    return b'MTrk' + struct.pack('>L', len(body)) + bytes(body)


def encode_file(fmt, division, tracks, header_len=6, **track_kw):
    """tracks: list of event lists, or list of (events, kwargs)."""
    hdr = struct.pack('>HHH', fmt, len(tracks), division) + bytes(header_len - 6)
    out = b'MThd' + struct.pack('>L', header_len) + hdr
    for t in tracks:
        if isinstance(t, tuple):
            out += encode_track(t[0], **t[1])
        else:
            out += encode_track(t, **track_kw)
    return out


EOT = ('meta', 0x2F, ())


def normalise(events):
    """Reference normalisation of a track: every end_of_track removed, its
    delta carried to the next event, one final end_of_track carrying the
    remainder."""
    out = []
    acc = 0
    for delta, ev in events:
        if ev == EOT:
            acc += delta
        else:
            out.append((delta + acc, ev))
            acc = 0
    out.append((acc, EOT))
    return out
