"""Reference MIDI 1.0 message codec.

Typed in from the MIDI 1.0 specification and docs/message_types.rst; it does
not import anything from mido (in particular not mido.messages.specs), so a
change to mido's tables cannot silently change the oracle.
"""
from numbers import Integral, Real

# type -> (status nibble/byte, ordered data attribute names)
CHANNEL = {
    'note_off': (0x80, ('note', 'velocity')),
    'note_on': (0x90, ('note', 'velocity')),
    'polytouch': (0xA0, ('note', 'value')),
    'control_change': (0xB0, ('control', 'value')),
    'program_change': (0xC0, ('program',)),
    'aftertouch': (0xD0, ('value',)),
    'pitchwheel': (0xE0, ('pitch',)),
}
SYSTEM = {
    'sysex': (0xF0, ('data',)),
    'quarter_frame': (0xF1, ('frame_type', 'frame_value')),
    'songpos': (0xF2, ('pos',)),
    'song_select': (0xF3, ('song',)),
    'tune_request': (0xF6, ()),
    'clock': (0xF8, ()),
    'start': (0xFA, ()),
    'continue': (0xFB, ()),
    'stop': (0xFC, ()),
    'active_sensing': (0xFE, ()),
    'reset': (0xFF, ()),
}
REALTIME = ('clock', 'start', 'continue', 'stop', 'active_sensing', 'reset')
REALTIME_STATUS = {0xF8: 'clock', 0xFA: 'start', 0xFB: 'continue',
                   0xFC: 'stop', 0xFE: 'active_sensing', 0xFF: 'reset'}
UNDEFINED_STATUS = (0xF4, 0xF5, 0xF9, 0xFD)

TYPES = tuple(CHANNEL) + tuple(SYSTEM)

# attribute -> (lo, hi)
RANGES = {
    'channel': (0, 15),
    'frame_type': (0, 7),
    'frame_value': (0, 15),
    'control': (0, 127),
    'note': (0, 127),
    'program': (0, 127),
    'song': (0, 127),
    'value': (0, 127),
    'velocity': (0, 127),
    'pitch': (-8192, 8191),
    'pos': (0, 16383),
}
DEFAULTS = {'channel': 0, 'frame_type': 0, 'frame_value': 0, 'control': 0,
            'note': 0, 'program': 0, 'song': 0, 'value': 0, 'velocity': 64,
            'data': (), 'pitch': 0, 'pos': 0, 'time': 0}


def attr_names(type_):
    """Ordered attribute names (excluding type/time), channel first."""
    if type_ in CHANNEL:
        return ('channel',) + CHANNEL[type_][1]
    return SYSTEM[type_][1]


def key_set(type_):
    return set(attr_names(type_)) | {'type', 'time'}


def status_of(type_, channel=0):
    if type_ in CHANNEL:
        return CHANNEL[type_][0] | channel
    return SYSTEM[type_][0]


def encode(type_, attrs):
    """Reference encoder: list of ints for a valid message."""
    if type_ in CHANNEL:
        st = CHANNEL[type_][0] | attrs['channel']
        if type_ == 'pitchwheel':
            v = attrs['pitch'] + 8192
            return [st, v & 0x7F, v >> 7]
        return [st] + [attrs[n] for n in CHANNEL[type_][1]]
    st = SYSTEM[type_][0]
    if type_ == 'sysex':
        return [0xF0] + list(attrs['data']) + [0xF7]
    if type_ == 'quarter_frame':
        return [0xF1, (attrs['frame_type'] << 4) | attrs['frame_value']]
    if type_ == 'songpos':
        return [0xF2, attrs['pos'] & 0x7F, attrs['pos'] >> 7]
    if type_ == 'song_select':
        return [0xF3, attrs['song']]
    return [st]


def message_length(status):
    """Total length in bytes of the message starting with status; None for
    sysex (unbounded), 0 for undefined/non-status."""
    if status < 0x80:
        return 0
    hi = status & 0xF0
    if hi in (0x80, 0x90, 0xA0, 0xB0, 0xE0):
        return 3
    if hi in (0xC0, 0xD0):
        return 2
    if status == 0xF0:
        return None
    if status in (0xF1, 0xF3):
        return 2
    if status == 0xF2:
        return 3
    if status in (0xF6, 0xF8, 0xFA, 0xFB, 0xFC, 0xFE, 0xFF):
        return 1
    return 0       # F4 F5 F7 F9 FD


_BY_HI = {v[0]: k for k, v in CHANNEL.items()}
_BY_STATUS = {v[0]: k for k, v in SYSTEM.items()}

INVALID = None


def decode(seq):
    """Reference acceptor: (type, attrs) for exactly one well-formed message
    given as a sequence of ints in 0..255, else INVALID."""
    n = len(seq)
    if n == 0:
        return INVALID
    st = seq[0]
    if not 0x80 <= st <= 0xFF:
        return INVALID
    if st == 0xF0:
        if n < 2 or seq[-1] != 0xF7:
            return INVALID
        data = tuple(seq[1:-1])
        if any(not 0 <= b <= 127 for b in data):
            return INVALID
        return ('sysex', {'data': data})
    length = message_length(st)
    if not length or n != length:
        return INVALID
    data = seq[1:]
    if any(not 0 <= b <= 127 for b in data):
        return INVALID
    if st < 0xF0:
        type_ = _BY_HI[st & 0xF0]
        attrs = {'channel': st & 0x0F}
        if type_ == 'pitchwheel':
            attrs['pitch'] = (data[0] | (data[1] << 7)) - 8192
        else:
            for name, b in zip(CHANNEL[type_][1], data):
                attrs[name] = b
        return (type_, attrs)
    type_ = _BY_STATUS[st]
    if type_ == 'quarter_frame':
        return (type_, {'frame_type': data[0] >> 4,
                        'frame_value': data[0] & 0x0F})
    if type_ == 'songpos':
        return (type_, {'pos': data[0] | (data[1] << 7)})
    if type_ == 'song_select':
        return (type_, {'song': data[0]})
    return (type_, {})


def is_int(v):
    return isinstance(v, Integral)


def valid_value(name, v):
    """Is v a valid value for attribute name (docs/message_types.rst)?"""
    if name == 'time':
        return isinstance(v, Real)
    if name == 'data':
        # checked after normalisation: a tuple of ints 0..127
        return (isinstance(v, tuple)
                and all(is_int(b) and 0 <= b <= 127 for b in v))
    lo, hi = RANGES[name]
    return is_int(v) and lo <= v <= hi


def valid_message_vars(d):
    """Validate a message's attribute dict; return None if valid, else a
    description of what is wrong."""
    t = d.get('type')
    if t not in CHANNEL and t not in SYSTEM:
        return f'unknown type {t!r}'
    ks = key_set(t)
    if set(d) != ks:
        return f'attribute set {sorted(d)} != {sorted(ks)}'
    for name, v in d.items():
        if name == 'type':
            continue
        if not valid_value(name, v):
            return f'{name}={v!r} ({type(v).__name__}) invalid'
    return None


def all_messages_of(type_, channel=None):
    """Generator of attribute dicts covering every in-range combination for
    type_ (channel fixed if given).  Sysex yields nothing (unbounded)."""
    if type_ in CHANNEL:
        chans = range(16) if channel is None else (channel,)
        names = CHANNEL[type_][1]
        for ch in chans:
            if names == ('pitch',):
                for p in range(-8192, 8192):
                    yield {'channel': ch, 'pitch': p}
            elif len(names) == 1:
                n0 = names[0]
                for a in range(128):
                    yield {'channel': ch, n0: a}
            else:
                n0, n1 = names
                for a in range(128):
                    for b in range(128):
                        yield {'channel': ch, n0: a, n1: b}
    elif type_ == 'quarter_frame':
        for ft in range(8):
            for fv in range(16):
                yield {'frame_type': ft, 'frame_value': fv}
    elif type_ == 'songpos':
        for p in range(16384):
            yield {'pos': p}
    elif type_ == 'song_select':
        for s in range(128):
            yield {'song': s}
    elif type_ == 'sysex':
        return
    else:
        yield {}
