"""Reference meta-event table and codec, typed from the SMF 1.0 specification
and docs/meta_message_types.rst.  Does not import mido.midifiles.meta."""
from numbers import Integral

MAJOR = {'C': 0, 'G': 1, 'D': 2, 'A': 3, 'E': 4, 'B': 5, 'F#': 6, 'C#': 7,
         'F': -1, 'Bb': -2, 'Eb': -3, 'Ab': -4, 'Db': -5, 'Gb': -6, 'Cb': -7}
MINOR = {'Am': 0, 'Em': 1, 'Bm': 2, 'F#m': 3, 'C#m': 4, 'G#m': 5, 'D#m': 6,
         'A#m': 7, 'Dm': -1, 'Gm': -2, 'Cm': -3, 'Fm': -4, 'Bbm': -5,
         'Ebm': -6, 'Abm': -7}
KEYS = dict([(k, (v, 0)) for k, v in MAJOR.items()] +
            [(k, (v, 1)) for k, v in MINOR.items()])
assert len(KEYS) == 30
FRAME_RATES = {24: 0, 25: 1, 29.97: 2, 30: 3}

# type -> (type byte, [(attribute, kind, lo, hi, default)])
TABLE = {
    'sequence_number': (0x00, [('number', 'int', 0, 65535, 0)]),
    'text': (0x01, [('text', 'str', None, None, '')]),
    'copyright': (0x02, [('text', 'str', None, None, '')]),
    'track_name': (0x03, [('name', 'str', None, None, '')]),
    'instrument_name': (0x04, [('name', 'str', None, None, '')]),
    'lyrics': (0x05, [('text', 'str', None, None, '')]),
    'marker': (0x06, [('text', 'str', None, None, '')]),
    'cue_marker': (0x07, [('text', 'str', None, None, '')]),
    'device_name': (0x09, [('name', 'str', None, None, '')]),
    'channel_prefix': (0x20, [('channel', 'int', 0, 255, 0)]),
    'midi_port': (0x21, [('port', 'int', 0, 255, 0)]),
    'end_of_track': (0x2F, []),
    'set_tempo': (0x51, [('tempo', 'int', 0, 16777215, 500000)]),
    'smpte_offset': (0x54, [('frame_rate', 'rate', None, None, 24),
                            ('hours', 'int', 0, 255, 0),
                            ('minutes', 'int', 0, 59, 0),
                            ('seconds', 'int', 0, 59, 0),
                            ('frames', 'int', 0, 255, 0),
                            ('sub_frames', 'int', 0, 99, 0)]),
    'time_signature': (0x58, [('numerator', 'int', 0, 255, 4),
                              ('denominator', 'pow2', 1, 2 ** 255, 4),
                              ('clocks_per_click', 'int', 0, 255, 24),
                              ('notated_32nd_notes_per_beat', 'int', 0, 255,
                               8)]),
    'key_signature': (0x59, [('key', 'key', None, None, 'C')]),
    'sequencer_specific': (0x7F, [('data', 'bytes', None, None, ())]),
}
TEXT_TYPES = tuple(t for t, (_, a) in TABLE.items() if a and a[0][1] == 'str')
BY_BYTE = {v[0]: k for k, v in TABLE.items()}


def attrs_of(type_):
    return [a[0] for a in TABLE[type_][1]]


def defaults_of(type_):
    return {a[0]: a[4] for a in TABLE[type_][1]}


def is_pow2(v):
    return isinstance(v, Integral) and v > 0 and (v & (v - 1)) == 0


def valid_value(type_, name, v):
    for a, kind, lo, hi, _ in TABLE[type_][1]:
        if a != name:
            continue
        if kind == 'int':
            return isinstance(v, Integral) and lo <= v <= hi
        if kind == 'str':
            return isinstance(v, str)
        if kind == 'rate':
            return v in FRAME_RATES and not isinstance(v, bool)
        if kind == 'pow2':
            return is_pow2(v) and lo <= v <= hi
        if kind == 'key':
            return isinstance(v, str) and v in KEYS
        if kind == 'bytes':
            try:
                return all(isinstance(b, Integral) and 0 <= b <= 255
                           for b in v)
            except TypeError:
                return False
    return None       # no such attribute


def vlq(n):
    out = [n & 0x7F]
    n >>= 7
    while n:
        out.append((n & 0x7F) | 0x80)
        n >>= 7
    return out[::-1]


def payload(type_, attrs, charset='latin1'):
    """Reference payload bytes for a meta message of known type."""
    a = dict(defaults_of(type_))
    a.update(attrs)
    if type_ == 'sequence_number':
        return [a['number'] >> 8, a['number'] & 0xFF]
    if type_ in TEXT_TYPES:
        name = attrs_of(type_)[0]
        return list(a[name].encode(charset))
    if type_ == 'channel_prefix':
        return [a['channel']]
    if type_ == 'midi_port':
        return [a['port']]
    if type_ == 'end_of_track':
        return []
    if type_ == 'set_tempo':
        t = a['tempo']
        return [t >> 16, (t >> 8) & 0xFF, t & 0xFF]
    if type_ == 'smpte_offset':
        return [(FRAME_RATES[a['frame_rate']] << 5) | a['hours'],
                a['minutes'], a['seconds'], a['frames'], a['sub_frames']]
    if type_ == 'time_signature':
        return [a['numerator'], a['denominator'].bit_length() - 1,
                a['clocks_per_click'], a['notated_32nd_notes_per_beat']]
    if type_ == 'key_signature':
        sf, mode = KEYS[a['key']]
        return [sf & 0xFF, mode]
    if type_ == 'sequencer_specific':
        return list(a['data'])
    raise KeyError(type_)


def encode(type_, attrs, charset='latin1'):
    p = payload(type_, attrs, charset)
    return [0xFF, TABLE[type_][0]] + vlq(len(p)) + p


def encode_unknown(type_byte, data):
    data = list(data)
    return [0xFF, type_byte] + vlq(len(data)) + data
