"""CLI:  /venv/bin/python -m mc <ID> [--tier quick|thorough] [--replay FILE]

Exit 0: property held on everything explored (KNOWN-FINDING lines allowed).
Exit 1: at least one ``VIOLATION property=<id> replay=<path>`` line.
Exit 2: the harness itself is broken (never a verdict about mido).
"""
import argparse
import importlib
import os
import sys


def main():
    ap = argparse.ArgumentParser(prog='mc')
    ap.add_argument('prop')
    ap.add_argument('--tier', default=None)
    ap.add_argument('--replay', default=None)
    args = ap.parse_args()

    if args.tier:
        os.environ['VERIF_TIER'] = args.tier
    if os.environ.get('VERIF_TIER') not in ('quick', 'thorough'):
        os.environ['VERIF_TIER'] = 'quick'

    # Fixed hash seed and no bytecode written into the repo: re-exec once.
    if (os.environ.get('PYTHONHASHSEED') != '0'
            or os.environ.get('PYTHONDONTWRITEBYTECODE') != '1'):
        os.environ['PYTHONHASHSEED'] = '0'
        os.environ['PYTHONDONTWRITEBYTECODE'] = '1'
        os.execv(sys.executable, [sys.executable, '-m', 'mc'] + sys.argv[1:])

    # Hard watchdog: a check that does not finish is a broken check (exit 2),
    # never a verdict.  Operations that can block are guarded individually in
    # the checks so that a blocking implementation is reported as a violation.
    import faulthandler
    import signal
    try:     # `kill -USR1 <pid>` dumps every thread's stack (debugging hangs)
        faulthandler.register(signal.SIGUSR1, all_threads=True)
    except (AttributeError, ValueError):
        pass
    default = 7200 if os.environ['VERIF_TIER'] == 'thorough' else 900
    try:
        limit = int(os.environ.get('VERIF_TIMEOUT', default))
    except ValueError:
        limit = default

    def _timeout(signum, frame):
        print(f'HARNESS-ERROR: property={args.prop.upper()} exceeded the '
              f'{limit}s watchdog', flush=True)
        try:
            import multiprocessing
            for child in multiprocessing.active_children():
                child.kill()
        finally:
            os._exit(2)
    signal.signal(signal.SIGALRM, _timeout)
    signal.alarm(limit)

    prop = args.prop.upper()
    try:
        mod = importlib.import_module(f'mc.checks.{prop.lower()}')
    except ModuleNotFoundError as e:
        if e.name and e.name.startswith('mc.checks'):
            print(f'HARNESS-ERROR: no check for {prop}')
            return 2
        raise
    if args.replay:
        return mod.replay(args.replay)
    report = mod.run()
    return report.finish()


if __name__ == '__main__':
    try:
        rc = main()
    except SystemExit:
        raise
    except BaseException:
        import traceback
        traceback.print_exc()
        print('HARNESS-ERROR: check crashed')
        rc = 2
    sys.stdout.flush()
    sys.exit(rc)
