"""setup_cmd: nothing to build (pure Python); verify the interpreter, the
repo import path and the framework modules load."""
import importlib
import sys

from . import common


def main():
    mido = common.import_mido()
    for name in ('mc.engine_enum', 'mc.evidence', 'mc.ref.midi'):
        importlib.import_module(name)
    print('mc selftest ok: mido from', mido.__file__, 'python', sys.version.split()[0])


if __name__ == '__main__':
    main()
