"""E1 - sharded exhaustive enumeration of a finite case space.

A check describes its space as a list of *shards* (picklable descriptions);
``worker(shard)`` enumerates the shard completely, calls the oracle on every
case and returns an ``Acc``.  Shards are distributed over a fork pool; mido
must be imported (from the working tree) before ``run_shards`` is called so
that every worker sees the same, already-patched module objects.
"""
import multiprocessing as mp
import traceback

from . import common

MAX_VIOL_PER_KEY = 3
MAX_KEYS = 200


_LAST = [None]


class Acc:
    """Per-shard accumulator (plain data, picklable)."""

    def __init__(self):
        _LAST[0] = self       # lets a crashing worker hand back what it had
        self.evals = 0
        self.nontrivial = 0
        self.viol = {}          # key -> [(key, what, case)]
        self.viol_total = 0
        self.samples = []
        self.counts = {}

    def violation(self, key, what, case=None):
        self.viol_total += 1
        lst = self.viol.get(key)
        if lst is None:
            if len(self.viol) >= MAX_KEYS:
                return
            lst = self.viol[key] = []
        if len(lst) < MAX_VIOL_PER_KEY:
            lst.append((key, what, case))

    def count(self, name, n=1):
        self.counts[name] = self.counts.get(name, 0) + n

    def sample(self, case, cap=2):
        if len(self.samples) < cap:
            self.samples.append(case)

    def pack(self):
        return (self.evals, self.nontrivial, self.viol, self.viol_total,
                self.samples, self.counts)


class ShardTimeout(BaseException):
    pass


def shard_limit():
    """Seconds one shard may take in a pool worker before it counts as hung
    (typical shards take seconds; the slowest under full load about one
    minute)."""
    import os
    d = 600 if common.tier() != 'thorough' else 3000
    return int(os.environ.get('VERIF_SHARD_TIMEOUT', d))


def guarded(fn, *a):
    """Run fn(*a) under a SIGALRM limit when in a pool worker.  Returns
    ('ok', result) or ('hang', formatted stack, hung_in_implementation)."""
    import signal
    in_worker = mp.current_process().name != 'MainProcess'
    if not in_worker:
        return ('ok', fn(*a))

    def on_alarm(sig, frame):
        raise ShardTimeout()
    old = signal.signal(signal.SIGALRM, on_alarm)
    signal.alarm(shard_limit())
    try:
        return ('ok', fn(*a))
    except ShardTimeout:
        tb = traceback.format_exc()
        frames = [ln for ln in tb.splitlines()
                  if ln.strip().startswith('File ') and 'in on_alarm' not in ln]
        # innermost frame that belongs to the harness or to the
        # implementation (library frames below it - select, accept, deque -
        # are whoever called them)
        inner = ''
        for ln in reversed(frames):
            if common.REPO in ln or common.VERIF in ln:
                inner = ln
                break
        in_impl = common.REPO in inner
        return ('hang', tb, in_impl)
    finally:
        signal.alarm(0)
        signal.signal(signal.SIGALRM, old)


def _call(args):
    worker, shard = args
    _LAST[0] = None
    try:
        r = guarded(worker, shard)
        if r[0] == 'hang':
            partial = _LAST[0].pack() if _LAST[0] is not None else None
            return ('hang', (repr(shard)[:300], r[1], r[2], partial))
        return ('ok', r[1].pack())
    except BaseException:   # a harness bug, not a property violation
        partial = _LAST[0].pack() if _LAST[0] is not None else None
        return ('err', (repr(shard)[:300], traceback.format_exc(), partial))


def run_shards(worker, shards, report, procs=None, chunksize=1):
    """Run ``worker`` over all shards; merge the accumulators into report."""
    shards = list(shards)
    procs = procs or common.nproc()
    s = common.seed()
    if shards and s:
        k = s % len(shards)
        shards = shards[k:] + shards[:k]      # seed only rotates shard order
    results = []
    if procs <= 1 or len(shards) <= 1:
        for sh in shards:
            results.append(_call((worker, sh)))
    else:
        ctx = mp.get_context('fork')
        with ctx.Pool(min(procs, len(shards))) as pool:
            for r in pool.imap_unordered(_call, [(worker, sh) for sh in shards],
                                         chunksize):
                results.append(r)
                if r[0] == 'hang' and r[1][2]:
                    # the implementation hangs: report it now instead of
                    # waiting for every other shard to hit the same loop
                    pool.terminate()
                    break
    for status, payload in results:
        if status == 'hang':
            shard, tb, in_impl, partial = payload
            if partial is not None:
                for key, lst in partial[2].items():
                    for _, what, case in lst:
                        report.violation(key, what, case)
            where = [ln.strip() for ln in tb.splitlines()
                     if ln.strip().startswith('File ')
                     and 'in on_alarm' not in ln][-3:]
            if in_impl:
                # the implementation loops or blocks: that is an execution
                # that never completes, not a harness problem
                report.add('evaluations')
                report.add('distinct_nontrivial')
                report.violation(
                    'call-never-returned',
                    f'shard {shard}: a call into the implementation did not '
                    f'return within {shard_limit()} s; innermost frames: '
                    f'{where}', {'kind': 'hang', 'shard': shard})
            else:
                report._vacuous = True
                print(f'HARNESS-ERROR: shard {shard} exceeded '
                      f'{shard_limit()} s inside the harness: {where}',
                      flush=True)
            continue
        if status == 'err':
            shard, tb, partial = payload
            if partial is not None:
                # violations recorded before the crash are real executions
                for key, lst in partial[2].items():
                    for _, what, case in lst:
                        report.violation(key, what, case)
            report._vacuous = True
            report.add('worker_crashes')
            if report.coverage['worker_crashes'] > 2:
                continue
            print(f'HARNESS-ERROR: worker crashed on shard {shard}\n{tb}',
                  flush=True)
            report._vacuous = True
            continue
        evals, nontrivial, viol, viol_total, samples, counts = payload
        report.add('evaluations', evals)
        report.add('distinct_nontrivial', nontrivial)
        for key, lst in viol.items():
            for _, what, case in lst:
                report.violation(key, what, case)
        for smp in samples:
            report.sample(smp)
        report.merge_counts(counts)
    report.coverage.setdefault('evaluations', 0)
    report.coverage.setdefault('distinct_nontrivial', 0)
    report.add('shards', len(shards))
    return report
