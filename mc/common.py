"""Bootstrap shared by every check: locate the repo, import mido from the
*working tree*, tier/seed handling.

The repo under test is /repo (override with MIDO_REPO for scratch worktrees
holding seeded changes).  mido is pure Python, so importing it from the
working tree in a fresh interpreter is the rebuild.
"""
import os
import sys

VERIF = os.path.dirname(os.path.dirname(os.path.abspath(__file__)))
REPO = os.path.realpath(os.environ.get('MIDO_REPO', '/repo'))
GUARD = 'MIDO_VERIF'

_mido = None


def tier():
    return os.environ.get('VERIF_TIER', 'quick')


def seed():
    try:
        return int(os.environ.get('VERIF_SEED', '0'))
    except ValueError:
        return 0


def nproc():
    try:
        n = int(os.environ.get('VERIF_PROCS', '0'))
    except ValueError:
        n = 0
    if n > 0:
        return n
    return min(16, os.cpu_count() or 1)


def import_mido():
    """Import mido from REPO and assert that is where it came from."""
    global _mido
    if _mido is not None:
        return _mido
    os.environ[GUARD] = '1'
    sys.dont_write_bytecode = True
    if REPO in sys.path:
        sys.path.remove(REPO)
    sys.path.insert(0, REPO)
    for name in list(sys.modules):
        if name == 'mido' or name.startswith('mido.'):
            del sys.modules[name]
    # Make sure no backend environment of the caller leaks into the import.
    for var in ('MIDO_BACKEND', 'MIDO_DEFAULT_INPUT', 'MIDO_DEFAULT_OUTPUT',
                'MIDO_DEFAULT_IOPORT'):
        os.environ.pop(var, None)
    import mido
    path = os.path.realpath(mido.__file__)
    if not path.startswith(REPO + os.sep):
        print(f'HARNESS-ERROR: mido imported from {path}, not {REPO}')
        sys.exit(2)
    _mido = mido
    return mido


def scratch_dir():
    """A private scratch directory outside /repo, /verif and /tmp."""
    import tempfile
    base = '/dev/shm' if os.path.isdir('/dev/shm') else None
    return tempfile.mkdtemp(prefix='mido-mc-', dir=base)


def scratch_root():
    d = '/dev/shm/mido-mc-scratch' if os.path.isdir('/dev/shm') else '/tmp/mido-mc-scratch'
    tag = os.environ.get('VERIF_SCRATCH_TAG')
    if tag:
        # parallel runs of the same check against different scratch copies
        d = os.path.join(d, 'tag-' + tag)
    os.makedirs(d, exist_ok=True)
    return d
