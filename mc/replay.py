"""Replay of a recorded violation without the explorer."""
import json


def generic_replay(prop, path, check_case):
    with open(path) as f:
        doc = json.load(f)
    bad = 0
    for entry in doc.get('cases', []):
        case = entry['case']
        res = check_case(case)
        if res:
            bad += 1
            for key, what in res:
                print(f'REPRODUCED property={prop} key={key}: {what}')
        else:
            print(f'NOT-REPRODUCED property={prop} case={case!r}')
    if bad:
        print(f'VIOLATION property={prop} replay={path}')
        return 1
    return 0
