"""E4 - thread-schedule explorer (stateless, iterative context bounding).

Real ``threading.Thread``s are driven one statement at a time: ``sys.settrace``
delivers a line event for every statement executed in a *watched* source file
and each such event hands the baton back to the controller, which decides who
runs next.  Only one program thread runs at any time, so an execution is a
pure function of its choice sequence.

Cooperative replacements (RLock, Queue, sleep) make blocking visible to the
controller: a thread waiting for a lock is disabled until the lock is free, a
thread that sleeps is disabled until some other thread has taken a step.

Every wait in this module has a timeout: losing control raises HarnessLost
(exit 2), it never hangs.
"""
import _thread
import gc
import queue as _real_queue
import sys
import threading as _threading
import time as _time

WAIT = 20.0           # seconds before the harness declares it lost control


class HarnessLost(Exception):
    pass


class Deadlock(Exception):
    pass


class _Kill(BaseException):
    """Raised inside a program thread to unwind it at teardown."""


def _locked():
    lk = _thread.allocate_lock()
    lk.acquire()
    return lk


def _signal(lk):
    try:
        lk.release()
    except RuntimeError:      # already signalled
        pass


class Point:
    __slots__ = ('enabled', 'chosen', 'running', 'running_enabled', 'where')

    def __init__(self, enabled, chosen, running, running_enabled, where):
        self.enabled = enabled
        self.chosen = chosen
        self.running = running
        self.running_enabled = running_enabled
        self.where = where


class Execution:
    def __init__(self):
        self.points = []
        self.choices = []
        self.results = {}         # thread index -> list of observations
        self.errors = {}          # thread index -> exception (uncaught)
        self.deadlock = None
        self.livelock = None
        self.steps = 0
        self.lock_waits = 0

    def preemptions_before(self, i):
        n = 0
        for p in self.points[:i]:
            if p.running_enabled and p.enabled[p.chosen] != p.running:
                n += 1
        return n

    def free_deviations_before(self, i):
        """Non-default choices at free switch points (the running thread
        blocked, slept or finished) before point i."""
        n = 0
        for p in self.points[:i]:
            if not p.running_enabled and p.chosen != 0:
                n += 1
        return n


class Scheduler:
    """One execution of a program (list of thread bodies) under a schedule
    given as a prefix of choices; choice 0 afterwards."""

    def __init__(self, bodies, prefix, watched, step_budget=3000):
        self.bodies = bodies
        self.prefix = list(prefix)
        self.watched = watched
        self.n = len(bodies)
        # binary semaphores as raw C locks (created locked): the hand-off
        # costs no Python-level calls, which matters under settrace
        self.sem = [_locked() for _ in bodies]
        self.ctl = _locked()
        self.state = ['new'] * self.n       # new ready blocked sleeping done
        self.blocked_on = [None] * self.n
        self.sleep_stamp = [None] * self.n
        self.steps_of = [0] * self.n
        self.where = [None] * self.n
        self.ident = {}
        self.exe = Execution()
        self.step_budget = step_budget
        self.kill = False
        self.current = None

    # ---- called from program threads
    def me(self):
        return self.ident.get(_thread.get_ident())

    def _yield(self, i):
        _signal(self.ctl)
        if not self.sem[i].acquire(True, WAIT):
            raise _Kill()
        if self.kill:
            raise _Kill()

    def point(self, i, where=None):
        self.state[i] = 'ready'
        self.where[i] = where
        self._yield(i)

    def block_on(self, i, lock):
        self.state[i] = 'blocked'
        self.blocked_on[i] = lock
        self.exe.lock_waits += 1
        self._yield(i)
        self.blocked_on[i] = None

    def sleep(self, i):
        self.state[i] = 'sleeping'
        self.sleep_stamp[i] = self.exe.steps
        self._yield(i)

    def _tracer(self, frame, event, arg):
        if event != 'call':
            return None
        if frame.f_code.co_filename in self.watched:
            return self._local
        return None

    def _local(self, frame, event, arg):
        if event == 'line':
            i = self.me()
            if i is not None and not self.kill:
                self.point(i, (frame.f_code.co_name, frame.f_lineno))
        return self._local

    def _thread_main(self, i):
        self.ident[_thread.get_ident()] = i
        try:
            if not self.sem[i].acquire(True, WAIT):
                return
            if self.kill:
                return
            sys.settrace(self._tracer)
            try:
                self.exe.results[i] = self.bodies[i]()
            finally:
                sys.settrace(None)
        except _Kill:
            pass
        except BaseException as e:       # uncaught in the body
            self.exe.errors[i] = e
        finally:
            self.state[i] = 'done'
            _signal(self.ctl)

    # ---- controller
    def _enabled(self):
        out = []
        for i in range(self.n):
            st = self.state[i]
            if st in ('new', 'ready'):
                out.append(i)
            elif st == 'blocked':
                lk = self.blocked_on[i]
                if lk is None or lk.owner is None or lk.owner == i:
                    out.append(i)
            elif st == 'sleeping':
                # re-enabled once another thread has taken a step
                if self.exe.steps > self.sleep_stamp[i]:
                    out.append(i)
        return out

    def run(self):
        threads = [_threading.Thread(target=self._thread_main, args=(i,),
                                     daemon=True) for i in range(self.n)]
        gc_was = gc.isenabled()
        gc.disable()
        for t in threads:
            t.start()
        exe = self.exe
        running = None
        try:
            while True:
                if all(s == 'done' for s in self.state):
                    break
                enabled = self._enabled()
                if not enabled:
                    sleepers = [i for i in range(self.n)
                                if self.state[i] == 'sleeping']
                    if sleepers:
                        # only pollers are left and none can make progress by
                        # itself: let them run (they re-check their condition)
                        enabled = sleepers
                        for i in sleepers:
                            self.sleep_stamp[i] = -1
                    else:
                        exe.deadlock = {
                            i: (self.state[i], getattr(self.blocked_on[i],
                                                       'name', None))
                            for i in range(self.n) if self.state[i] != 'done'}
                        break
                # canonical order: the running thread first if enabled
                if running in enabled and self.state[running] != 'sleeping':
                    enabled = [running] + [i for i in enabled if i != running]
                    running_enabled = True
                else:
                    running_enabled = False
                    # Free switch (the running thread blocked, slept or
                    # finished).  Fairness: a thread that is merely polling
                    # (sleeping) is not offered here while a thread that can
                    # make real progress exists - otherwise two pollers could
                    # hand the baton to each other for ever at no cost.  A
                    # poller can still be switched to at any ordinary point
                    # for the price of one preemption.
                    workers = [i for i in enabled
                               if self.state[i] != 'sleeping']
                    if workers:
                        enabled = workers
                    else:
                        oldest = min(enabled,
                                     key=lambda i: (self.sleep_stamp[i], i))
                        enabled = [oldest]
                k = len(exe.points)
                if k < len(self.prefix):
                    c = self.prefix[k]
                    if c >= len(enabled):
                        raise HarnessLost(
                            f'replay diverged at point {k}: choice {c} of '
                            f'{len(enabled)} enabled')
                else:
                    c = 0
                nxt = enabled[c]
                exe.points.append(Point(tuple(enabled), c, running,
                                        running_enabled, self.where[nxt]))
                exe.choices.append(c)
                running = nxt
                self.steps_of[nxt] += 1
                exe.steps += 1
                if self.steps_of[nxt] > self.step_budget:
                    exe.livelock = nxt
                    break
                self.state[nxt] = 'running'
                self.current = nxt
                _signal(self.sem[nxt])
                if not self.ctl.acquire(True, WAIT):
                    raise HarnessLost(f'thread {nxt} did not hand back control '
                                      f'at {self.where[nxt]}')
        finally:
            # unwind whatever is still parked
            self.kill = True
            for i in range(self.n):
                if self.state[i] != 'done':
                    _signal(self.sem[i])
            for t in threads:
                t.join(timeout=WAIT)
            if gc_was:
                gc.enable()
        return exe


# ---------------------------------------------------------------- primitives
class CoopRLock:
    """Re-entrant lock whose waiting is visible to the scheduler.  Outside a
    managed thread it is an uncontended counter."""

    _count = 0

    def __init__(self, name=None):
        CoopRLock._count += 1
        self.name = name or f'lock{CoopRLock._count}'
        self.owner = None
        self.depth = 0

    def acquire(self, blocking=True, timeout=-1):
        s = CURRENT[0]
        me = s.me() if s is not None else None
        if me is None:
            self.owner = 'main' if self.owner in (None, 'main') else self.owner
            self.depth += 1
            return True
        while self.owner is not None and self.owner != me:
            if not blocking:
                return False
            s.block_on(me, self)
        self.owner = me
        self.depth += 1
        return True

    def release(self):
        self.depth -= 1
        if self.depth <= 0:
            self.depth = 0
            self.owner = None

    __enter__ = acquire

    def __exit__(self, *a):
        self.release()
        return False


class CoopQueue:
    """queue.Queue replacement: get() on empty disables the thread until a
    put happens."""
    Empty = _real_queue.Empty

    def __init__(self, maxsize=0):
        from collections import deque
        self.queue = deque()
        self.maxsize = maxsize

    def put(self, item, block=True, timeout=None):
        self.queue.append(item)

    put_nowait = put

    def get_nowait(self):
        if not self.queue:
            raise _real_queue.Empty
        return self.queue.popleft()

    def get(self, block=True, timeout=None):
        s = CURRENT[0]
        while not self.queue:
            if not block:
                raise _real_queue.Empty
            me = s.me() if s is not None else None
            if me is None:
                raise _real_queue.Empty
            s.sleep(me)
        return self.queue.popleft()

    def qsize(self):
        return len(self.queue)

    def empty(self):
        return not self.queue


CURRENT = [None]      # the Scheduler of the execution in progress


def coop_sleep(seconds=0):
    s = CURRENT[0]
    if s is None:
        return
    me = s.me()
    if me is not None:
        s.sleep(me)


class ThreadingShim:
    """Stands in for the ``threading`` module inside mido.ports."""

    def __init__(self, real):
        self._real = real

    def RLock(self):
        return CoopRLock()

    def Lock(self):
        return CoopRLock()

    def __getattr__(self, name):
        return getattr(self._real, name)


class QueueShim:
    Empty = _real_queue.Empty
    Queue = CoopQueue

    def __getattr__(self, name):
        return getattr(_real_queue, name)


def run_schedule(make_program, prefix, watched, step_budget=3000):
    """make_program() -> (bodies, finish) builds fresh objects; returns the
    Execution and whatever finish() returns (observations for the oracle)."""
    bodies, finish = make_program()
    s = Scheduler(bodies, prefix, watched, step_budget)
    CURRENT[0] = s
    try:
        exe = s.run()
    finally:
        CURRENT[0] = None
    return exe, finish()


def explore(make_program, watched, bound, check, root=(), stats=None,
            step_budget=3000, max_execs=None, free_bound=None):
    """Enumerate every schedule reachable from ``root`` with at most ``bound``
    preemptions (free switches at blocking points are unbounded).  check(exe,
    obs, choices) is called for every complete execution."""
    stats = stats if stats is not None else {}
    stats.setdefault('schedules', 0)
    stats.setdefault('points_max', 0)
    stats.setdefault('capped', False)
    stack = [list(root)]
    while stack:
        prefix = stack.pop()
        if max_execs is not None and stats['schedules'] >= max_execs:
            # hand the unexplored subtrees back to the caller (work sharing);
            # nothing is dropped
            stack.append(prefix)
            stats['leftover'] = stack
            break
        exe, obs = run_schedule(make_program, prefix, watched, step_budget)
        stats['schedules'] += 1
        stats['points_max'] = max(stats['points_max'], len(exe.points))
        stats['lock_waits'] = stats.get('lock_waits', 0) + exe.lock_waits
        check(exe, obs, list(exe.choices))
        for i in range(len(prefix), len(exe.points)):
            p = exe.points[i]
            cost = exe.preemptions_before(i)
            fcost = exe.free_deviations_before(i)
            for alt in range(1, len(p.enabled)):
                if p.running_enabled:
                    if cost + 1 > bound:
                        continue
                else:
                    # a non-default choice at a free switch point: bounded
                    # separately (otherwise the tree is exponential in the
                    # number of blocking points)
                    if free_bound is not None and fcost + 1 > free_bound:
                        continue
                    if cost > bound:
                        continue
                stack.append(exe.choices[:i] + [alt])
    return stats
