ENGINES = [
    {'name': 'E1-enum', 'path': 'mc/engine_enum.py', 'serves_properties': ['C01', 'C02'],
     'kind_free_text': 'sharded exhaustive enumeration of a finite input/configuration space of the real code against a reference model'},
]
NOTES = 'All checks are bounded exhaustive explorations of the real mido code (imported from the /repo working tree) against independent reference models; see DESIGN.md.'
NOT_YET = {}
CHECKS['C01'] = dict(
    engine='E1-enum', category='exploration', design_ref='DESIGN.md 5/C01',
    technique='exhaustive enumeration of the complete message space (1.33M messages + bounded sysex) of the implementation against a reference codec',
    text='Every one of the 1 331 463 valid non-sysex messages and a bounded family of sysex payloads is constructed, encoded and decoded on the real code; bytes/bin/hex/len are compared with an independent MIDI 1.0 reference encoder and the decoded message with the original. The non-sysex space is finite and covered completely, which is the strongest statement available for it.',
    note='Trusted: the reference codec in mc/ref/midi.py (typed from the MIDI 1.0 tables). Sysex payloads beyond the class alphabet and listed lengths, and time values beyond six representatives, are assumed to be handled uniformly.')

CHECKS['C02'] = dict(
    engine='E1-enum', category='exploration', design_ref='DESIGN.md 5/C02',
    technique='exhaustive enumeration of all 16.8M integer sequences of length <= 3 (and length 4-6 over a boundary alphabet, odd items) of the implementation against a reference acceptor',
    text='Message.from_bytes is called on every integer sequence of length 0..3 over 0..255 (complete), on every sequence of length 4..5 (6 thorough) over a 14-symbol boundary alphabet, and on out-of-byte and non-integer items at every position of one template per status family; from_hex over the hex renderings. An independent reference acceptor decides VALID (message must reproduce the input) or INVALID (exactly ValueError; TypeError only for non-integers).',
    note='Trusted: reference acceptor mc/ref/midi.py. Sequences longer than 3 only over the boundary alphabet.')
