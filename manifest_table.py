ENGINES = [
    {'name': 'E1-enum', 'path': 'mc/engine_enum.py', 'serves_properties': ['C01', 'C02', 'C04', 'C05', 'C06', 'C07', 'C08', 'C09', 'C12', 'C13', 'C14', 'C19', 'C20'],
     'kind_free_text': 'sharded exhaustive enumeration of a finite input/configuration space of the real code against a reference model'},
    {'name': 'E4-sched', 'path': 'mc/engine_sched.py', 'serves_properties': ['C10'],
     'kind_free_text': 'stateless thread-schedule explorer: real threads driven one statement at a time by sys.settrace line events and a baton; cooperative RLock/Queue/sleep; depth-first enumeration of all schedules within a preemption bound (iterative context bounding) with work sharing over 16 processes'},
    {'name': 'E3-dev', 'path': 'mc/checks/c17.py', 'serves_properties': ['C13', 'C17', 'C18'],
     'kind_free_text': 'deviation-bounded / fault-point enumeration: the harness owns every environment answer (truncation point, corrupted byte, failing write, clock, consumer delay) and enumerates all runs up to a deviation bound'},
    {'name': 'E2-bfs', 'path': 'mc/engine_bfs.py', 'serves_properties': ['C03', 'C04', 'C05', 'C11', 'C15', 'C16'],
     'kind_free_text': 'explicit-state breadth-first search over live implementation objects (state = replayable operation history, canonicalised from the complete vars() of the objects), level-parallel'},
]
NOTES = 'All checks are bounded exhaustive explorations of the real mido code (imported from the /repo working tree) against independent reference models; see DESIGN.md.'
NOT_YET = {}
CHECKS['C01'] = dict(
    engine='E1-enum', category='exploration', design_ref='DESIGN.md 5/C01',
    technique='exhaustive enumeration of the complete message space (1.33M messages + bounded sysex) of the implementation against a reference codec',
    text='Every one of the 1 331 463 valid non-sysex messages and a bounded family of sysex payloads is constructed, encoded and decoded on the real code; bytes/bin/hex/len are compared with an independent MIDI 1.0 reference encoder and the decoded message with the original. The non-sysex space is finite and covered completely, which is the strongest statement available for it.',
    note='Trusted: the reference codec in mc/ref/midi.py (typed from the MIDI 1.0 tables). Sysex payloads beyond the class alphabet and listed lengths, and time values beyond six representatives, are assumed to be handled uniformly.')

CHECKS['C02'] = dict(
    engine='E1-enum', category='exploration', design_ref='DESIGN.md 5/C02',
    technique='exhaustive enumeration of all 16.8M integer sequences of length <= 3 (and length 4-6 over a boundary alphabet, odd items) of the implementation against a reference acceptor',
    text='Message.from_bytes is called on every integer sequence of length 0..3 over 0..255 (complete), on every sequence of length 4..5 (6 thorough) over a 14-symbol boundary alphabet, and on out-of-byte and non-integer items at every position of one template per status family; from_hex over the hex renderings. An independent reference acceptor decides VALID (message must reproduce the input) or INVALID (exactly ValueError; TypeError only for non-integers).',
    note='Trusted: reference acceptor mc/ref/midi.py. Sequences longer than 3 only over the boundary alphabet.')

CHECKS['C04'] = dict(
    engine='E2-bfs', category='model_checking', design_ref='DESIGN.md 5/C04',
    technique='explicit-state search of the real Parser to a fixed point (every reachable state x all 256 bytes) plus exhaustive enumeration of all strings up to a length bound over a byte-class alphabet',
    text='The real Parser/Tokenizer is explored as a transition system: BFS to a fixed point over canonical states (complete vars()), feeding each of the 256 byte values from every reachable state, so totality and per-step soundness hold for streams of any length within the payload bound; additionally every string of length <= 5 (6 thorough) over a 15-symbol byte-class alphabet is parsed through three entry points and judged by the statement itself (valid messages, real-time one-to-one, subsequence).',
    note='Oracle is the property statement (no mido tables). Data byte values are abstracted to representatives for expansion only; sysex payload bound L=3 (5 thorough). The sampled long-random-stream clause is replaced by the closure argument.')
CHECKS['C05'] = dict(
    engine='E2-bfs', category='model_checking', design_ref='DESIGN.md 5/C05',
    technique='breadth-first search over feed/retrieve operation histories of the live Parser and ParserQueue against a FIFO model, plus exhaustive enumeration of every chunking of every string up to a length bound',
    text='All histories up to depth 10 (13 thorough) of feed_byte/feed/get_message/pending/len/live-iterator/list operations (Parser) and put_bytes/poll/get/iterpoll (ParserQueue) are executed on real objects and compared step by step with a FIFO model; every string of length <= 5 (6) over a 9-symbol alphabet is fed in every one of its 2^(n-1) chunkings with varying call forms and must equal the one-shot parse.',
    note='FIFO model derives the message list from the one-shot parse of all bytes fed (whose soundness is C04/C06). Pending queue bounded at 3 for expansion. Depth-bounded, not a fixed point.')
CHECKS['C06'] = dict(
    engine='E1-enum', category='exploration', design_ref='DESIGN.md 5/C06',
    technique='exhaustive enumeration of (prefix, message) pairs, message concatenations and real-time insertions into sysex, executed on the real parser',
    text='Every prefix string of length <= 4 (5 thorough) over the 15-symbol byte-class alphabet and every proper prefix of every sample message, combined with 29 sample messages covering all 18 types; every concatenation of up to 3 messages; every multiset of up to 3 insertion positions strictly inside a sysex encoding x all 8 real-time byte values. The oracle is the statement itself.',
    note='Prefixes limited to the class alphabet; with a non-empty enumerated prefix the message M ranges over 29 representatives (one per type/length class/extreme), while every one of the 1.33M valid non-sysex messages is parsed alone, after a message cut short and inside an open sysex. A thin layer of fixed long cases (sysex payloads around 2**k up to 2**17, long interrupted-sysex prefixes) is listed separately in the evidence rule.')

CHECKS['C03'] = dict(
    engine='E2-bfs', category='model_checking', design_ref='DESIGN.md 5/C03',
    technique='explicit-state search to a fixed point over live Message objects (setattr/delattr/+=/copy transitions, constructor/from_dict/from_str probes at every state) against a reference validator',
    text='For each of the 18 message types the set of message states reachable through the checked API is explored to a fixed point on real objects; every transition (accepted or rejected assignment, deletion, data +=, copy with overrides, construction, from_dict, from_str) over boundary and ill-typed value alphabets is judged by a reference validator typed from docs/message_types.rst: result valid, rejected operations raise ValueError/TypeError/AttributeError and leave the object unchanged, type and key set never change.',
    note='Values strictly between the range limits are represented by the midpoint; bool is treated as an integer; sysex payload growth expanded to length 3.')

CHECKS['C12'] = dict(
    engine='E1-enum', category='exploration', design_ref='DESIGN.md 5/C12',
    technique='exhaustive enumeration of track lists over an event alphabet, each merged by the real merge_tracks and compared with an independent absolute-time oracle',
    text='Every list of 1-3 tracks up to the stated lengths over {note, set_tempo, unknown meta, end_of_track} x delta {0,1,2} (end_of_track missing, repeated, mid-track; empty tracks; no tracks) is merged with both skip_checks values and through MidiFile.merged_track; an independent oracle recomputes absolute ticks, the (tick, track, index) order, the single final end_of_track and the total duration, and the inputs are compared with a snapshot.',
    note='Deltas limited to {0,1,2} and track lengths bounded (quick 4/2/1, thorough 5/3/2 for 1/2/3 tracks) in the exhaustive part; on top of it fixed long families (1..33 tracks x 5..1000 events x 9 delta patterns x 4 event-kind patterns), rebuilt/frozen/shared-object variants and generator/tuple/list argument forms, listed in the evidence rule.')
CHECKS['C19'] = dict(
    engine='E1-enum', category='exploration', design_ref='DESIGN.md 5/C19',
    technique='exhaustive enumeration of message lists, both file formats and whitespace layouts through real files on tmpfs',
    text='Every message list up to length 4 (5 thorough) over 8 representative messages is written and read back in both formats; every assignment of 8 whitespace separators to the gaps of small plain-text files is read; malformed hex must raise ValueError.',
    note='Payload contents limited to representatives (lengths 0,1,3,300,5000) in the exhaustive part; plus wrapped hex dumps with repeated content, lists of up to 1000 messages, binary sizes around 4096/8192/65536 bytes, every latin1 whitespace separator, and the raw file contents compared with the SYX format.')

CHECKS['C09'] = dict(
    engine='E1-enum', category='exploration', design_ref='DESIGN.md 5/C09',
    technique='exhaustive enumeration of the finite meta attribute domains and boundary payload lengths of the implementation against a reference meta-event codec',
    text='The complete finite domains (65536 sequence numbers, 256 channel/port values, 30 keys, 256 denominator exponents x {0,1,255}^3, SMPTE limits) and payload lengths at every variable-length-quantity boundary are constructed, encoded (compared byte for byte with a reference codec typed from the SMF specification), decoded with MetaMessage.from_bytes, read from a one-track file and built through assignment; out-of-domain values must raise ValueError/TypeError.',
    note='set_tempo swept with stride 4096 plus limits; text restricted to latin1; known finding: smpte hours >= 32 (see known_findings.json).')

CHECKS['C15'] = dict(
    engine='E2-bfs', category='model_checking', design_ref='DESIGN.md 5/C15',
    technique='breadth-first search over operation histories on a pool of related live message objects against a reference pool of plain dicts (state key includes aliasing)',
    text='From each of 37 base objects (every Message type, every MetaMessage type, UnknownMetaMessage) all histories up to depth 3 (4 thorough) of copy, copy with valid/invalid overrides, freeze, thaw, valid/invalid assignment, deletion, hashing, equality and dictionary lookup on a pool of up to 3 objects are executed; after every step each object must equal its own reference dict and have the mapped class, frozen objects must reject mutation, equal frozen objects hash equal and hit as keys, None maps to None.',
    note='One representative value per attribute; depth-bounded over a deduplicated state graph whose key records object and __dict__ identity.')

CHECKS['C16'] = dict(
    engine='E2-bfs', category='model_checking', design_ref='DESIGN.md 5/C16',
    technique='breadth-first search over edit/observe operation histories of a live MidiFile with a differential oracle (same observation on a freshly built file)',
    text='All histories up to depth 4 (5 thorough) of 15 edit kinds interleaved with 5 observations (iterate, length, merged_track, save, play on a fake clock) are executed on a live MidiFile; after every step every observation must equal the one obtained from MidiFile(type, ticks_per_beat, tracks=deep copy). No hand-written expectation is involved.',
    note='State = complete vars() of the MidiFile (cache fields included); tracks bounded at 2 x 3 messages for expansion; one value per edit kind.')

CHECKS['C13'] = dict(
    engine='E1-enum', category='exploration', design_ref='DESIGN.md 5/C13',
    technique='exhaustive enumeration of small files against an exact rational tempo-map integral, and deviation-bounded enumeration of consumer-delay / sleep-overshoot patterns for play() on a harness-owned clock',
    text='Every file over 5 ticks_per_beat values and tracks of bounded length over {note, three set_tempo values, text} x three deltas is iterated and measured; cumulative times are compared with the exact Fraction integral of the tempo map. play() runs on a fake clock (now= and the module time.sleep replaced) under every set of <= 2 deviations from the default environment (consumer delays, sleep overshoots): never early, no drift, sleeps end exactly on the schedule, meta filter. The tick/second grid is enumerated completely for the listed values.',
    note='Float comparison tolerance 1e-9 relative; track lengths bounded (3/2 quick, 4/2 thorough); deviation bound 2.')

CHECKS['C14'] = dict(
    engine='E1-enum', category='exploration', design_ref='DESIGN.md 5/C14',
    technique='exhaustive enumeration of messages and containers through str/dict/repr round trips, and of text lines and line streams over a word alphabet against a reference grammar',
    text='Every boundary combination of attribute values of every message type (the full 1.33M space in thorough) x 10 time values goes through from_str(str(m)), from_dict(m.dict()) and eval(repr(m)); meta messages, frozen variants, tracks of length 0..4 and files with 0..2 tracks through eval(repr(x)). Every line of up to 3 words over a 10 x 36 word alphabet is parsed and judged by a reference grammar written from docs/messages/serializing.rst (valid: that message; invalid: exactly ValueError); every stream of up to 3 (4) lines over 16 line kinds must yield (msg, None) / (None, "line n: ...") in order without aborting.',
    note='Numeric literals restricted to plain decimal forms; bool/inf/nan times outside the statement.')

CHECKS['C07'] = dict(
    engine='E1-enum', category='exploration', design_ref='DESIGN.md 5/C07',
    technique='exhaustive enumeration of small files through save+load, of unstorable contents, and of every single-byte mutation/truncation/deletion/duplication of reference-encoded base files (fixed-point clause)',
    text='Every single track of length <= 3 (4 thorough) over 20 event kinds with deltas at every variable-length-quantity boundary, every pair/triple of short tracks, boundary payload lengths, three ticks_per_beat values and all file types are saved and loaded back and compared with the reference normalisation (single trailing end_of_track carrying the remaining delta). Unstorable contents must make save raise ValueError. 4 base files produced by the reference encoder are mutated exhaustively at byte level; every mutant that loads must be a fixed point of load-save-load.',
    note='Event kinds and track lengths bounded; a mutant that fails to load is outside the clause; negative end_of_track deltas that fold into a storable delta are accepted when the file loads to the normalised content.')

CHECKS['C08'] = dict(
    engine='E1-enum', category='exploration', design_ref='DESIGN.md 5/C08',
    technique='exhaustive enumeration of event lists with an independent SMF reference codec: saved bytes decoded by a strict reference decoder; every legal alternative encoding (running-status subsets, deviation-bounded VLQ padding and header length) loaded by the implementation',
    text='Write direction: every track of length <= 3 (4 thorough) over 20 event kinds is saved and the bytes decoded by a strict decoder written from the SMF 1.0 specification (exact chunk lengths, minimal VLQs, running status only after a channel message of equal status, sysex framing, FF 2F 00 last) and compared with the in-memory events. Read direction: for every track of length <= 3 all running-status subsets and every set of <= 2 deviations among redundant VLQ bytes and longer header chunks are encoded by the reference encoder and must load to the same messages, plain, with clip=True and with debug=True; every channel data byte replaced by 0x80/0xF7/0xFF must raise without clip and become 127 with clip. A symmetric reader+writer fault that C07 cannot see is visible here.',
    note='Trusted: mc/ref/smf.py. System common messages stored raw are accepted as a mido extension; alien chunks and SMPTE division outside the statement.')

CHECKS['C17'] = dict(
    engine='E3-dev', category='fault_enumeration', design_ref='DESIGN.md 5/C17',
    technique='exhaustive fault enumeration: every truncation offset and corrupted byte of a saved file on load, every position of an unstorable message and every failing write on save, with a charset probe after each call',
    text='For 8 charsets x 9 texts x 9 text-carrying meta types the saved payload (decoded by the reference SMF decoder) must equal text.encode(charset) and load back unchanged. Then every place a load or save can fail is enumerated - each prefix of the file, each track byte corrupted, bad chunk names, the n-th message unstorable or unencodable for every n, the output file failing on its k-th write for every k - under the default ambient charset and inside an outer meta_charset block; after every call, succeeded or raised, the public MetaMessage text codec must behave as under the ambient charset.',
    note='Charsets limited to eight; probing through MetaMessage.bytes()/from_bytes only.')

CHECKS['C20'] = dict(
    engine='E1-enum', category='exploration', design_ref='DESIGN.md 5/C20',
    technique='complete enumeration of the finite configuration grid with recording fake backend modules on sys.path against a pure reference function',
    text='All 26 112 configurations of (backend given as argument / MIDO_BACKEND, with or without an API suffix or keyword, a competing MIDO_BACKEND) x use_environ x each default-port variable set/unset x port name given/absent x explicit api in the call x module with/without native IOPort and get_devices x load x six operations, plus set_backend rebinding, are executed against fake backend modules that record imports, constructor calls and device queries; a pure reference function written from docs/backends states the expected import moment, names, api injection, name lists and wrapper fallback.',
    note='Empty-string environment values and api given twice are outside the grid (undefined by the docs); the wrapper fallback may pass extra keywords.')

CHECKS['C11'] = dict(
    engine='E2-bfs', category='model_checking', design_ref='DESIGN.md 5/C11',
    technique='breadth-first search over operation histories on 13 live port kinds with the sleep seam as an environment choice point (message arrives / device hangs up / nothing, with a horizon), against a life-cycle reference automaton',
    text='Every history up to depth 5 (7 thorough) of device events, send, poll, non-blocking and blocking receive, iteration, iter_pending, close / with-exit / __del__ and injected device write failures is executed on device doubles (direct and parser style, autoreset, self-closing), EchoPort, the IOPort wrapper and MultiPort. Inside blocking calls each call of ports.sleep is answered from an environment script. The reference automaton tracks per-source FIFO of delivered/taken-in/returned messages, the closed flag, the release counter (exactly one _close) and the 32 reset messages; a blocking call that sleeps while a message is deliverable, a non-blocking call that sleeps, an iteration that raises, a double release are violations.',
    note='Devices are doubles at the documented extension seam; real backends out of reach.')

CHECKS['C18'] = dict(
    engine='E3-dev', category='fault_enumeration', design_ref='DESIGN.md 5/C18',
    technique='crash-point enumeration on real sockets: every cut offset of every message stream x segmentations x consumption calls, then peer disconnect; loopback PortServer histories',
    text='A real SocketPort over socket.socketpair() receives every stream of up to 2 (3) messages cut at every byte offset, delivered in every segmentation (all 2^(n-1) for <= 8 bytes) with poll/iter_pending calls between segments, after which the peer closes or half-closes; the messages received in total must equal the parse of the bytes before the cut, iteration must end silently and the port report closed. Closing the port must give the peer EOF; format/parse_address are checked as inverses; a PortServer on loopback TCP must hand out every message of 0-2 clients exactly once via poll, iter_pending and blocking receive without polling forever.',
    note='AF_UNIX socketpair is synchronous; the TCP part waits (bounded) for delivery; behaviour of send after the peer has gone is not judged.')

CHECKS['C10'] = dict(
    engine='E4-sched', category='model_checking', design_ref='DESIGN.md 5/C10',
    technique='stateless model checking of thread schedules: every interleaving of small multi-threaded programs on the real ports within a preemption bound (iterative context bounding), at statement granularity',
    text='Eight (nine thorough) programs of 3-4 real threads - senders and receivers on EchoPort (receive, poll, iter_pending), on a lock-protected device double that moves one byte per statement, on the IOPort wrapper, on MultiPort (receive and send side) and on ParserQueue - are executed under every schedule with at most 1 preemption (2 thorough; +1 for the parser queue) and at most 2 (3) non-default choices at free switch points. Scheduling points are all statements of mido/ports.py, the parser queue and the doubles; locks, the queue and sleep are cooperative so that waiting is visible. Per schedule: no call raised, exactly-once delivery, per-sender order, received copy unaffected by the sender mutating its object, no deadlock or livelock. The default schedule is replayed twice to prove determinism.',
    note='Parser/tokenizer internals atomic; interleavings within one source line not explored; more preemptions than the bound not covered; the sampled larger-programs clause of the property is not claimed.')
