#!/usr/bin/env python3
"""Regenerate MANIFEST.json from the table below (keeps it valid at all times)."""
import json, os, sys
HERE = os.path.dirname(os.path.abspath(__file__))

# property -> (category, technique, level text, level note, design ref)
CHECKS = {}
exec(open(os.path.join(HERE, 'manifest_table.py')).read())

props = [json.loads(l)['id'] for l in open(os.path.join(HERE, 'properties.jsonl'))]
checks = []
na = []
for p in props:
    if p in CHECKS and os.path.exists(os.path.join(HERE, 'mc', 'checks', p.lower() + '.py')):
        c = CHECKS[p]
        checks.append({
            'property_id': p,
            'quick_cmd': f'/venv/bin/python -m mc {p} --tier quick',
            'thorough_cmd': f'/venv/bin/python -m mc {p} --tier thorough',
            'evidence_file': f'/verif/evidence/{p}.json',
            'replay_cmd_template': f'/venv/bin/python -m mc {p} --replay {{path}}',
            'engine': c['engine'],
            'level_claimed': {'category': c['category'], 'text': c['text'], 'design_ref': c['design_ref']},
            'level_note': c['note'],
            'technique': c['technique'],
        })
    else:
        na.append({'property_id': p, 'reason': NOT_YET.get(p, 'check not built yet in this session; planned in DESIGN.md section 5')})
m = {
    'version': 1,
    'setup_cmd': '/venv/bin/python -m mc.selftest',
    'hooks': {
        'guard': 'MIDO_VERIF',
        'enable': 'no source hooks: checks set MIDO_VERIF=1 and patch module-level seams (time.sleep, threading.RLock, random.shuffle, select.select) from outside; mido is imported from /repo working tree in a fresh interpreter',
        'baseline_off_cmd': 'cd /repo && /venv/bin/python -m pytest -ra -q -p no:cacheprovider --timeout=900 --continue-on-collection-errors',
        'source_commits': [],
        'add_only': True,
    },
    'engines': ENGINES,
    'checks': checks,
    'notes': NOTES,
    'not_applicable': na,
}
json.dump(m, open(os.path.join(HERE, 'MANIFEST.json'), 'w'), indent=1)
print('checks:', [c['property_id'] for c in checks])
print('not_applicable:', [c['property_id'] for c in na])
