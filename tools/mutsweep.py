#!/usr/bin/env python3
"""Systematic first-order mutation sweep over the mido sources.

For every mutant (one AST-level edit) a scratch copy of /repo's HEAD is made
under /dev/shm, the repository's own tests are run, and - only when they still
pass - the quick checks mapped to the mutated file.  One JSON line per mutant
goes to the output file; nothing is written to /repo.

usage: tools/mutsweep.py [--files GLOB...] [--out FILE] [--jobs N] [--limit N]
                         [--only-survivors-of FILE]
"""
import argparse
import ast
import copy
import fnmatch
import json
import os
import shutil
import subprocess
import sys
import tempfile
from concurrent.futures import ThreadPoolExecutor

REPO = '/repo'
FILES = {
    'mido/messages/checks.py': 'C03 C02 C01 C15',
    'mido/messages/decode.py': 'C02 C01 C04 C06',
    'mido/messages/encode.py': 'C01 C06 C10',
    'mido/messages/messages.py': 'C03 C01 C02 C14 C15',
    'mido/messages/specs.py': 'C01 C02 C03 C04',
    'mido/messages/strings.py': 'C14 C03',
    'mido/tokenizer.py': 'C04 C05 C06 C18 C19',
    'mido/parser.py': 'C04 C05 C06 C18',
    'mido/ports.py': 'C11 C18',
    'mido/sockets.py': 'C18 C11',
    'mido/syx.py': 'C19',
    'mido/frozen.py': 'C15 C12',
    'mido/midifiles/meta.py': 'C09 C17 C07 C08 C14',
    'mido/midifiles/midifiles.py': 'C07 C08 C13 C17',
    'mido/midifiles/tracks.py': 'C12 C16 C14 C13',
    'mido/midifiles/units.py': 'C13',
    'mido/backends/backend.py': 'C20',
    'mido/backends/_parser_queue.py': 'C05 C10',
    'mido/__init__.py': 'C20',
}

CMP = {ast.Lt: ast.LtE, ast.LtE: ast.Lt, ast.Gt: ast.GtE, ast.GtE: ast.Gt,
       ast.Eq: ast.NotEq, ast.NotEq: ast.Eq, ast.Is: ast.IsNot,
       ast.IsNot: ast.Is, ast.In: ast.NotIn, ast.NotIn: ast.In}
BIN = {ast.Add: ast.Sub, ast.Sub: ast.Add, ast.Mult: ast.FloorDiv,
       ast.FloorDiv: ast.Mult, ast.Div: ast.Mult, ast.LShift: ast.RShift,
       ast.RShift: ast.LShift, ast.BitAnd: ast.BitOr, ast.BitOr: ast.BitAnd,
       ast.Mod: ast.FloorDiv}


def mutants_of(src):
    """Yield (lineno, description, new_source)."""
    tree = ast.parse(src)
    nodes = list(ast.walk(tree))

    def emit(desc, lineno):
        return (lineno, desc, ast.unparse(tree))

    for node in nodes:
        ln = getattr(node, 'lineno', 0)
        if isinstance(node, ast.Compare):
            for i, op in enumerate(node.ops):
                new = CMP.get(type(op))
                if new:
                    node.ops[i] = new()
                    yield emit(f'{type(op).__name__}->{new.__name__}', ln)
                    node.ops[i] = op
        elif isinstance(node, ast.BinOp):
            new = BIN.get(type(node.op))
            if new and not (isinstance(node.op, ast.Mod)
                            and isinstance(node.left, ast.Constant)
                            and isinstance(node.left.value, str)):
                old = node.op
                node.op = new()
                yield emit(f'{type(old).__name__}->{new.__name__}', ln)
                node.op = old
        elif isinstance(node, ast.BoolOp):
            old = node.op
            node.op = ast.Or() if isinstance(old, ast.And) else ast.And()
            yield emit(f'{type(old).__name__}->{type(node.op).__name__}', ln)
            node.op = old
        elif isinstance(node, ast.UnaryOp) and isinstance(node.op, ast.Not):
            # drop the `not`
            saved = copy.copy(node.__dict__)
            operand = node.operand
            node.__class__ = operand.__class__
            node.__dict__.clear()
            node.__dict__.update(operand.__dict__)
            yield emit('drop-not', ln)
            node.__class__ = ast.UnaryOp
            node.__dict__.clear()
            node.__dict__.update(saved)
        elif isinstance(node, ast.Constant) and not isinstance(
                node.value, (str, bytes, type(None), type(...))):
            v = node.value
            if isinstance(v, bool):
                node.value = not v
                yield emit(f'{v}->{not v}', ln)
            elif isinstance(v, int):
                for nv in (v + 1, v - 1):
                    node.value = nv
                    yield emit(f'{v}->{nv}', ln)
            elif isinstance(v, float):
                node.value = v * 2
                yield emit(f'{v}->{v * 2}', ln)
            node.value = v
    # statement-level: delete simple statements, negate if-tests, cut
    # `break`/`continue`/`return value`
    for parent in nodes:
        for field in ('body', 'orelse', 'finalbody'):
            body = getattr(parent, field, None)
            if not isinstance(body, list):
                continue
            for i, st in enumerate(body):
                if not isinstance(st, ast.stmt):
                    continue
                ln = st.lineno
                if isinstance(st, (ast.Assign, ast.AugAssign, ast.Expr,
                                   ast.Raise, ast.Break, ast.Continue,
                                   ast.Delete)):
                    if isinstance(st, ast.Expr) and isinstance(
                            st.value, ast.Constant):
                        continue            # docstring
                    body[i] = ast.copy_location(ast.Pass(), st)
                    yield emit(f'delete-{type(st).__name__}', ln)
                    body[i] = st
                elif isinstance(st, ast.Return) and st.value is not None:
                    old = st.value
                    st.value = None
                    yield emit('return-None', ln)
                    st.value = old
                elif isinstance(st, (ast.If, ast.While)):
                    old = st.test
                    st.test = ast.copy_location(
                        ast.UnaryOp(op=ast.Not(), operand=old), old)
                    yield emit(f'negate-{type(st).__name__.lower()}', ln)
                    st.test = old
                    if isinstance(st, ast.If):
                        st.test = ast.copy_location(ast.Constant(False), old)
                        yield emit('if-False', ln)
                        st.test = old


def run(cmd, cwd, timeout, env=None):
    try:
        p = subprocess.run(cmd, cwd=cwd, timeout=timeout, env=env,
                           stdout=subprocess.PIPE, stderr=subprocess.STDOUT,
                           text=True, start_new_session=True)
        return p.returncode, p.stdout
    except subprocess.TimeoutExpired as e:
        try:
            os.killpg(os.getpgid(e.pid), 9) if hasattr(e, 'pid') else None
        except Exception:
            pass
        return 124, ''


def evaluate(job):
    idx, rel, lineno, desc, new_src, checks, procs = job
    d = tempfile.mkdtemp(prefix=f'mido-ms-{idx}-', dir='/dev/shm')
    res = {'id': idx, 'file': rel, 'line': lineno, 'mutation': desc}
    try:
        subprocess.run(f'git -C {REPO} archive HEAD | tar -x -C {d}',
                       shell=True, check=True)
        with open(os.path.join(d, rel), 'w') as f:
            f.write(new_src + '\n')
        rc, out = run(['/venv/bin/python', '-c', 'import mido'], d, 60)
        if rc != 0:
            res['outcome'] = 'does-not-import'
            return res
        rc, out = run(['/venv/bin/python', '-m', 'pytest', '-q', '-x',
                       '-p', 'no:cacheprovider', '--deselect',
                       'tests/midifiles/test_tracks.py::test_merge_large_midifile',
                       'tests'], d, 300)
        if rc != 0:
            res['outcome'] = 'killed-by-repo-tests'
            return res
        env = dict(os.environ, MIDO_REPO=d, VERIF_NOEVIDENCE='1',
                   VERIF_PROCS=str(procs), VERIF_TIMEOUT='500',
                   VERIF_SCRATCH_TAG=str(idx))
        res['outcome'] = 'survived'
        res['checks'] = {}
        for c in checks:
            rc, out = run(['/venv/bin/python', '-m', 'mc', c], '/verif', 560,
                          env)
            res['checks'][c] = rc
            if rc == 1:
                res['outcome'] = f'killed-by-{c}'
                key = [ln for ln in out.splitlines() if 'key=' in ln][:1]
                res['key'] = key[0].strip()[:200] if key else ''
                break
            if rc not in (0, 1):
                res.setdefault('harness', []).append(c)
        return res
    except Exception as e:
        res['outcome'] = f'sweep-error:{e!r}'[:200]
        return res
    finally:
        shutil.rmtree(d, ignore_errors=True)
        shutil.rmtree(f'/dev/shm/mido-mc-scratch/tag-{idx}', ignore_errors=True)


def main():
    ap = argparse.ArgumentParser()
    ap.add_argument('--files', nargs='*', default=['*'])
    ap.add_argument('--out', default='/verif/mutsweep/results.jsonl')
    ap.add_argument('--jobs', type=int, default=5)
    ap.add_argument('--procs', type=int, default=3)
    ap.add_argument('--limit', type=int, default=0)
    ap.add_argument('--stride', type=int, default=1)
    ap.add_argument('--list', action='store_true')
    ap.add_argument('--second-pass', action='store_true',
                    help='run the checks NOT mapped to the file on the '
                         'mutants that survived the first pass')
    a = ap.parse_args()
    jobs = []
    idx = 0
    for rel, checks in FILES.items():
        src = subprocess.run(['git', '-C', REPO, 'show', f'HEAD:{rel}'],
                             stdout=subprocess.PIPE, text=True,
                             check=True).stdout
        seen = set()
        for lineno, desc, new_src in mutants_of(src):
            if new_src in seen:
                continue
            seen.add(new_src)
            idx += 1
            jobs.append((idx, rel, lineno, desc, new_src, checks.split(),
                         a.procs))
    # ids are global (independent of --files) so that runs can be resumed
    jobs = [j for j in jobs if any(fnmatch.fnmatch(j[1], g) for g in a.files)]
    if a.second_pass:
        SECOND = {'mido/midifiles/meta.py': 'C15 C16',
                  'mido/messages/messages.py': 'C07 C12',
                  'mido/messages/specs.py': 'C14 C15',
                  'mido/messages/checks.py': 'C14',
                  'mido/messages/decode.py': 'C10',
                  'mido/messages/strings.py': 'C01',
                  'mido/midifiles/midifiles.py': 'C12 C09',
                  'mido/midifiles/tracks.py': 'C07 C15',
                  'mido/frozen.py': 'C14 C03',
                  'mido/tokenizer.py': 'C11',
                  'mido/parser.py': 'C11 C19'}
        alive = {}
        for ln in open(a.out):
            r = json.loads(ln)
            if r['outcome'] == 'survived':
                alive[(r['file'], r['line'], r['mutation'], r['id'])] = r
        jobs = [(j[0], j[1], j[2], j[3], j[4],
                 SECOND.get(j[1], '').split(), j[6])
                for j in jobs if (j[1], j[2], j[3], j[0]) in alive
                and SECOND.get(j[1])]
        a.out = a.out.replace('.jsonl', '.pass2.jsonl')
    jobs = jobs[::a.stride]
    if a.limit:
        jobs = jobs[:a.limit]
    if a.list:
        for j in jobs:
            print(j[0], j[1], j[2], j[3])
        print(len(jobs), 'mutants')
        return
    done = set()
    os.makedirs(os.path.dirname(a.out), exist_ok=True)
    if os.path.exists(a.out):
        for ln in open(a.out):
            try:
                r = json.loads(ln)
                done.add((r['file'], r['line'], r['mutation'], r['id']))
            except Exception:
                pass
    todo = [j for j in jobs if (j[1], j[2], j[3], j[0]) not in done]
    print(f'{len(jobs)} mutants, {len(todo)} to do', flush=True)
    with open(a.out, 'a') as out, ThreadPoolExecutor(a.jobs) as ex:
        for r in ex.map(evaluate, todo):
            out.write(json.dumps(r) + '\n')
            out.flush()
            print(r['id'], r['file'], r['line'], r['mutation'], '->',
                  r['outcome'], flush=True)


if __name__ == '__main__':
    main()
