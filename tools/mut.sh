#!/bin/bash
# usage: tools/mut.sh <name> <python-expr-edit-script-file|-> <check ids...>
# Creates a scratch copy of /repo in /dev/shm, applies a patch file (git diff format) or a
# python edit script, runs repo tests and the named checks against it, then removes it.
set -u
name=$1; patch=$2; shift 2
d=/dev/shm/mido-mut-$name-$$
rm -rf $d; mkdir -p $d
git -C /repo archive HEAD | tar -x -C $d
# include uncommitted working tree changes of /repo too
(cd /repo && git diff) | (cd $d && git apply --allow-empty - 2>/dev/null || true)
if [[ $patch == *.py ]]; then (cd $d && python3 $patch) || { echo "edit failed"; rm -rf $d; exit 3; }
else (cd $d && git apply $patch) || { echo "patch failed"; rm -rf $d; exit 3; }; fi
if [ "${SKIP_TESTS:-0}" != 1 ]; then
 (cd $d && timeout -k 5 600 /venv/bin/python -m pytest -q -x -p no:cacheprovider --deselect tests/midifiles/test_tracks.py::test_merge_large_midifile tests >/dev/shm/mut-$name-$$.log 2>&1; echo "repo-tests rc=$?"; tail -3 /dev/shm/mut-$name-$$.log | cut -c1-200)
 rm -f /dev/shm/mut-$name-$$.log
fi
for c in "$@"; do
  (cd /verif && MIDO_REPO=$d VERIF_NOEVIDENCE=1 VERIF_TIMEOUT=${MUT_TIMEOUT:-300} timeout -k 5 ${MUT_TIMEOUT:-300} /venv/bin/python -m mc $c --tier ${TIER:-quick} 2>&1 | grep -E "VIOLATION|HARNESS|^\[C|key=" | head -${LINES_MAX:-8} | cut -c1-300)
done
rm -rf $d
