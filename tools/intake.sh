#!/bin/bash
# usage: tools/intake.sh <PID> <worktree> <i> [extra check ids...]
# Confirms a sub-agent's seeded change (patch applies, repo tests pass, demo passes clean / fails
# patched), runs the property's check against it, and stores it under /verif/seeded/.
set -u
pid=$1; wt=$2; i=$3; shift 3
extra="$@"
src=$wt/change$i.diff; demo=$wt/demo$i.py; md=$wt/change$i.md
[ -f $src ] || { echo "no $src"; exit 3; }
clean=/dev/shm/mido-seed-clean-$$; mut=/dev/shm/mido-seed-mut-$$
rm -rf $clean $mut; mkdir -p $clean $mut
git -C /repo archive HEAD | tar -x -C $clean
git -C /repo archive HEAD | tar -x -C $mut
(cd $mut && git apply --recount -C1 $src) || (cd $mut && patch -p1 -F3 < $src >/dev/null) || { echo "PATCH DOES NOT APPLY"; rm -rf $clean $mut; exit 3; }
(cd $mut && timeout -k 5 900 /venv/bin/python -m pytest -q -x -p no:cacheprovider --deselect tests/midifiles/test_tracks.py::test_merge_large_midifile tests >/dev/null 2>&1); trc=$?
(cd $clean && cp $demo demo.py && timeout -k 5 300 /venv/bin/python demo.py >/dev/null 2>&1); crc=$?
(cd $mut && cp $demo demo.py && timeout -k 5 300 /venv/bin/python demo.py >$mut/demo.out 2>&1); mrc=$?
echo "repo-tests-with-change rc=$trc   demo-clean rc=$crc   demo-with-change rc=$mrc"
tail -2 $mut/demo.out | cut -c1-250
rm -f $mut/demo.py $mut/demo.out
detected=""
for c in $pid $extra; do
  out=$(cd /verif && MIDO_REPO=$mut VERIF_NOEVIDENCE=1 VERIF_TIMEOUT=${MUT_TIMEOUT:-600} timeout -k 5 ${MUT_TIMEOUT:-600} /venv/bin/python -m mc $c --tier ${TIER:-quick} 2>&1)
  rc=$?
  echo "$out" | grep -E "VIOLATION|HARNESS|^\[C|key=" | head -${LINES_MAX:-5} | cut -c1-260
  echo "check $c rc=$rc"
  if [ $rc = 1 ]; then detected="$detected $c"; fi
done
n=$(ls -d /verif/seeded/$pid-* 2>/dev/null | wc -l); n=$((n+1))
if [ "$trc" = 0 ] && [ "$crc" = 0 ] && [ "$mrc" != 0 ]; then
  dest=/verif/seeded/$pid-$n; 
  # do not duplicate an identical patch
  for e in /verif/seeded/$pid-*/patch.diff; do [ -f "$e" ] && cmp -s $e $src && dest=$(dirname $e); done
  mkdir -p $dest; cp $src $dest/patch.diff; cp $demo $dest/demo.py; [ -f $md ] && cp $md $dest/notes.md
  python3 - "$dest" "$pid" "$detected" "$trc" "$crc" "$mrc" <<'PY'
import json,sys,subprocess,os
dest,pid,det,trc,crc,mrc=sys.argv[1:7]
head=subprocess.check_output(['git','-C','/repo','log','-1','--format=%h']).decode().strip()
notes=open(os.path.join(dest,'notes.md')).read() if os.path.exists(os.path.join(dest,'notes.md')) else ''
meta={'property':pid,'breaks':notes.strip(),'needs_to_manifest':'see notes.md',
 'confirmed':{'repo_head':head,'patch_applies':True,'repo_tests_with_change_rc':int(trc),'demo_clean_rc':int(crc),'demo_with_change_rc':int(mrc),
 'how':'tools/intake.sh: scratch copies of /repo HEAD under /dev/shm; pytest (minus the network-flaky test_merge_large_midifile); demo.py run in clean and changed copy'},
 'detected_by_checks':det.split(), 'check_tier': os.environ.get('TIER','quick')}
json.dump(meta,open(os.path.join(dest,'meta.json'),'w'),indent=1)
print('stored',dest,'detected_by',det.split())
PY
else
  echo "NOT KEPT (needs tests rc=0, demo clean rc=0, demo changed rc!=0)"
fi
rm -rf $clean $mut
