#!/bin/bash
# usage: tools/intake_batch.sh <worktree-prefix> "<extra checks for all>" Cxx Cyy ...
# one summary line per change; removes each worktree afterwards
pre=$1; extra=$2; shift 2
for p in "$@"; do
  for i in 1 2; do
    [ -f $pre-$p/change$i.diff ] || { echo "$p-$i: no change$i.diff"; continue; }
    MUT_TIMEOUT=${MUT_TIMEOUT:-500} /verif/tools/intake.sh $p $pre-$p $i $extra > /tmp/intake-$p-$i.out 2>&1
    line=$(grep -E "^repo-tests" /tmp/intake-$p-$i.out | head -1)
    st=$(grep -E "^stored|NOT KEPT|PATCH DOES NOT" /tmp/intake-$p-$i.out | head -1)
    echo "$p#$i: $line | $st"
  done
  if grep -q 'NOT KEPT\|PATCH DOES NOT' /tmp/intake-$p-*.out 2>/dev/null; then echo "  (worktree $pre-$p kept for inspection)"; else git -C /repo worktree remove --force $pre-$p 2>/dev/null; fi
done
