#!/usr/bin/env python3
"""Summarise mutsweep results: counts per outcome, survivors per file."""
import collections, json, sys
args = [a for a in sys.argv[1:] if not a.startswith('-')]
path = args[0] if args else '/verif/mutsweep/results.jsonl'
rs = [json.loads(l) for l in open(path) if l.strip()]
c = collections.Counter(r['outcome'] for r in rs)
print(len(rs), 'mutants evaluated')
for k, v in sorted(c.items(), key=lambda kv: -kv[1]):
    print(f'  {v:5d}  {k}')
alive = [r for r in rs if r['outcome'] == 'survived']
harn = [r for r in rs if r.get('harness')]
print('survivors of the repo tests:', sum(1 for r in rs if r['outcome'] == 'survived' or r['outcome'].startswith('killed-by-C')),
      ' killed by a check:', sum(1 for r in rs if r['outcome'].startswith('killed-by-C')))
if '-v' in sys.argv:
    for r in alive:
        print('SURVIVED', r['file'], r['line'], r['mutation'], r.get('checks'))
for r in harn:
    print('HARNESS', r['file'], r['line'], r['mutation'], r.get('checks'))
