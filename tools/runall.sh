#!/bin/bash
# usage: tools/runall.sh [tier] [seed]   - runs every registered check, one line each
tier=${1:-quick}; seed=${2:-0}
cd /verif
for c in $(python3 -c "import json;print(' '.join(c['property_id'] for c in json.load(open('MANIFEST.json'))['checks']))"); do
  t0=$(date +%s)
  VERIF_SEED=$seed VERIF_TIMEOUT=${VERIF_TIMEOUT:-1500} timeout -k 5 ${VERIF_TIMEOUT:-1500} /venv/bin/python -m mc $c --tier $tier > /tmp/runall-$c.out 2>&1
  rc=$?
  t1=$(date +%s)
  echo "$c rc=$rc $((t1-t0))s viol=$(grep -c '^VIOLATION' /tmp/runall-$c.out) known=$(grep -c '^KNOWN-FINDING' /tmp/runall-$c.out) harness=$(grep -c 'HARNESS-ERROR' /tmp/runall-$c.out)"
done
