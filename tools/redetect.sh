#!/bin/bash
# Run the named checks against a stored seeded change (scratch copy of HEAD + patch) and
# record which of them report it in meta.json.   usage: tools/redetect.sh <Cxx-n> Cyy...
n=$1; shift
d=/verif/seeded/$n
m=/dev/shm/mido-rd-$n; rm -rf $m; mkdir -p $m; git -C /repo archive HEAD | tar -x -C $m
(cd $m && git apply --recount -C1 $d/patch.diff 2>/dev/null) || (cd $m && patch -p1 -F3 < $d/patch.diff >/dev/null 2>&1) || { echo "$n: PATCH-FAILS"; rm -rf $m; exit 0; }
det=""
for c in "$@"; do
  (cd /verif && MIDO_REPO=$m VERIF_NOEVIDENCE=1 VERIF_TIMEOUT=900 timeout -k 5 900 /venv/bin/python -m mc $c > /dev/shm/rd-$n-$c.out 2>&1); rc=$?
  echo "  $n $c rc=$rc $(grep -m1 -o 'key=[^]]*' /dev/shm/rd-$n-$c.out | cut -c1-150)"
  [ $rc = 1 ] && det="$det $c"
  rm -f /dev/shm/rd-$n-$c.out
done
python3 - "$d/meta.json" $det <<'PY'
import json, sys
p = sys.argv[1]
m = json.load(open(p))
m['detected_by_checks'] = sorted(set(m.get('detected_by_checks', [])) | set(sys.argv[2:]))
json.dump(m, open(p, 'w'), indent=1)
print('  detected_by', m['detected_by_checks'])
PY
rm -rf $m
