#!/usr/bin/env python3
"""Print the sub-agent prompt for one property (text of the property only)."""
import json, sys
pid = sys.argv[1]; wt = sys.argv[2]
wave = sys.argv[3] if len(sys.argv) > 3 else "1"
EXTRA = """

Additional requirements for this round: make the two changes as different as possible from the obvious first ideas (do NOT simply weaken a range check or drop a lock). Change 1 must involve STATE CARRIED ACROSS CALLS OR OBJECTS: a cache or memo, a reused or module-level buffer, a shared default object, lazily initialised state, an object returned without copying, or a fast path that skips a state reset - something that only misbehaves after a particular earlier call or sequence of calls. Change 2 must depend on a SPECIFIC UNUSUAL INPUT OR ENVIRONMENT CONDITION: an exact boundary value or length, a rare-but-legal combination of two features, an error raised at a particular point, or a particular order of events. Both must still keep the existing test suite green."""
EXTRA3 = """

Additional requirements for this round: avoid the obvious ideas (weakening a range check, dropping a lock, adding a cache keyed on too little). Change 1 must live on an ERROR OR RECOVERY PATH: what the library does during or after an operation that raises, is rejected, is interrupted or is abandoned half-way (partially applied updates, state left behind by a failed call, cleanup that is skipped or done twice, an exception of the wrong kind from a rare branch). It must only misbehave after or during such a failure, never on the plain success path. Change 2 must be made in a DIFFERENT FILE OR HELPER than the obvious one - a shared helper, table, base class or utility that the anchored code relies on - or consist of TWO SMALL EDITS AT DIFFERENT SITES that are each harmless alone and only break the property together. Both must still keep the existing test suite green."""
EXTRA4 = """

Additional requirements for this round: avoid the obvious ideas (weakening a range check, dropping a lock, an under-keyed cache, a missing try/finally). Change 1 must be a PYTHON-SEMANTICS PITFALL introduced by an innocent-looking refactor: for example `x or default` swallowing a valid falsy value (0, 0.0, empty tuple, empty string), truthiness tests instead of `is None`, `is` instead of `==`, a mutable default argument or class attribute, a late-binding closure or lambda in a loop, a generator or iterator consumed twice, reliance on dict or set ordering, shadowing a name, integer division or float rounding, slicing off-by-one, `isinstance` against the wrong base class, bool being an int. It must only misbehave for particular values (typically 0, empty, negative, boundary, or a subclass), not for ordinary ones. Change 2 must be a CROSS-FEATURE INTERACTION: the property's behaviour stays right for the plain, common kind of object but breaks when combined with another part of the library - frozen messages, meta messages and unknown meta messages, message subclasses, tracks and files built in unusual but legal ways, ports wrapping other ports, the parser fed by another component, string/dict/hex forms - whichever are relevant to this property. Both must still keep the existing test suite green."""
EXTRA5 = """

Additional requirements for this round: avoid the obvious ideas (weakening a range check, dropping a lock, an under-keyed cache, a missing try/finally, truthiness of zero). Change 1 must be a SPECIAL CASE OR FAST PATH KEYED ON A DEFAULT, CONVENTIONAL OR REPEATED VALUE: something that only triggers for a default (velocity 64, tempo 500000, 480 ticks per beat, channel 0, file type 1, charset latin1, time 0), a conventional value (channel 9, middle C, all-notes-off), or for two equal things in a row (the same message twice, the same delta or tempo again, the same status byte, an identical second call) - a 'nothing changed, skip the work' shortcut that is wrong in one situation. Change 2 must only manifest BEYOND SMALL SIZES: it needs at least 6-10 elements or operations in sequence, a payload or count in the hundreds or thousands, three or more participants (tracks, ports, clients, threads), or nesting two levels deep - while every small case (up to 4 or 5 elements) behaves exactly as before. Both must still keep the existing test suite green."""
for l in open('/verif/properties.jsonl'):
    p = json.loads(l)
    if p['id'] == pid: break
print(f"""You are helping test a verification effort for the Python MIDI library "mido". You work ONLY inside the scratch git worktree {wt} (a checkout of the library; the package is in {wt}/mido, tests in {wt}/tests). Do not touch /repo or /verif, and do not read anything under /verif.

Here is a semantic property the library is supposed to satisfy:

  Title: {p['title']}
  Statement: {p['statement']}
  Quantified over: {p['quantifier']['text']}
  Code it is anchored in: {', '.join(p['anchors']['files'])}
  Mechanisms meant to make it hold: {'; '.join(m['name'] + ' (' + m['where'] + ')' for m in p['anchors']['mechanism'])}

Your task: produce TWO independent, realistic source changes to the library (files under {wt}/mido only), each of which BREAKS this property while the library still imports and the existing test suite still passes. Think of the kind of bug a maintainer could plausibly introduce in a refactor or "optimisation" - not sabotage that ordinary use would expose immediately. Prefer changes that need something specific to manifest: a particular input value or boundary, a multi-step sequence of operations, a particular interleaving or fault position, an unusual-but-legal input, or two cooperating sites that each look fine alone. The two changes should be different in kind (different code site or different failure mechanism).

For EACH change i in (1, 2):
 1. Start from a clean tree (`git -C {wt} checkout -- .`), make the change, and save it with `git -C {wt} diff > {wt}/change{{i}}.diff`.
 2. Verify the existing tests still pass with the change: `cd {wt} && /venv/bin/python -m pytest -q -p no:cacheprovider -x --deselect tests/midifiles/test_tracks.py::test_merge_large_midifile tests; echo rc=$?` must give rc=0. (Run from inside {wt} so that `import mido` resolves to the worktree; confirm with `cd {wt} && /venv/bin/python -c "import mido; print(mido.__file__)"`.)
 3. Write a small demonstration `{wt}/demo{{i}}.py` (plain Python, run as `cd {wt} && /venv/bin/python demo{{i}}.py`) that exits 0 on the clean tree and exits non-zero (with a clear message on what was observed vs expected) with the change applied. Verify both.
 4. Write `{wt}/change{{i}}.md`: 3-6 lines - what was changed, which clause of the property it breaks, and what exactly is needed for it to manifest.
Finish with the tree clean (`git -C {wt} checkout -- .`), leaving only the untracked files change1.diff, demo1.py, change1.md, change2.diff, demo2.py, change2.md in {wt}. If you can only find one valid change, deliver one. Use `timeout 600` on any command that could hang. Report briefly what the two changes are.""" + ({"1": "", "2": EXTRA, "3": EXTRA3, "4": EXTRA4, "5": EXTRA5}.get(wave, EXTRA)))
