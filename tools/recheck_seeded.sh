#!/bin/bash
# Re-validate every stored seeded change against the CURRENT /repo HEAD: patch applies (with
# fuzz), repo tests pass, demo fails, and at least one of the recorded checks reports it.
# usage: tools/recheck_seeded.sh [pattern]   (4 in parallel)
pat=${1:-C}
ls -d /verif/seeded/${pat}* | xargs -P 3 -I{} bash -c '
d={}; n=$(basename $d); p=${n%-*}
checks=$(python3 -c "import json;print(\" \".join(json.load(open(\"$d/meta.json\"))[\"detected_by_checks\"]))")
m=/dev/shm/mido-re-$n; rm -rf $m; mkdir -p $m; git -C /repo archive HEAD | tar -x -C $m
(cd $m && git apply --recount -C1 $d/patch.diff 2>/dev/null) || (cd $m && patch -p1 -F3 < $d/patch.diff >/dev/null 2>&1) || { echo "$n: PATCH-FAILS"; rm -rf $m; exit 0; }
det=""
for c in $checks; do
  (cd /verif && MIDO_REPO=$m VERIF_NOEVIDENCE=1 VERIF_PROCS=3 VERIF_TIMEOUT=900 timeout -k 5 900 /venv/bin/python -m mc $c > /dev/shm/re-$n-$c.out 2>&1); rc=$?
  [ $rc = 1 ] && det="$det $c"
  rm -f /dev/shm/re-$n-$c.out
done
echo "$n: recorded=[$checks] now=[$det ]"
rm -rf $m'
